//! C14 — parallel execution is safe and equivalent to running alone.
//!
//! Stateless, preemption-bounded exploration of the interleavings of REAL OS threads running real
//! gluon code (CHESS style). With `--cfg gluon_verif` every `std::sync::{Mutex, RwLock}` of
//! vm/src/{thread,vm,channel}.rs and src/{import,query}.rs is a wrapper that reports to a
//! per-thread `Scheduler` before each acquisition and only ever TRIES to acquire, so a worker never
//! blocks inside a lock while it is the only one allowed to run; writes to the incremental database
//! (which wait for every snapshot) and snapshot lifetimes are reported as well. The scheduler below
//! lets exactly one worker run between two such points and enumerates the choices:
//!   * all executions with 0 preemptions, then 1, then 2 (a preemption = switching away from a
//!     worker that could continue), depth first, replayed from the start on a fresh VM each time;
//!   * choices are only offered before operations on locks that at least two workers touch in
//!     some execution (operations on private locks commute with everything);
//!   * a worker whose acquisition attempt failed is disabled until somebody else made progress;
//!     all unfinished workers disabled = DEADLOCK.
//! Blocking the scheduler cannot see (salsa's per-query synchronisation, parking_lot) shows up as a
//! running worker that reaches no point: after T_STUCK it is set aside and another worker is
//! scheduled; such executions are counted separately and never produce a verdict on their own.
//! Oracle per execution: every worker finishes, its result equals its result when run alone on a
//! fresh VM, the body of the shared module ran at most once, nothing panicked.

use crate::isolate::{self, CaseOutcome};
use crate::par;
use crate::report::Report;
use crate::vmkit::{self, Settings};
use gluon::query::CompilationBase;
use gluon::vm::verif::{self, LockOp, Scheduler};
use gluon::{RootedThread, ThreadExt};
use serde_json::{json, Value};
use std::collections::{BTreeMap, BTreeSet, HashMap};
use std::sync::{Arc, Condvar, Mutex};
use std::time::{Duration, Instant};

const T_STUCK: Duration = Duration::from_millis(250);
const T_EXECUTION: Duration = Duration::from_secs(60);
const MAX_STEPS: usize = 200_000;

// ---------------------------------------------------------------------------------------------
// scheduler

#[derive(Clone, Debug, PartialEq)]
enum WStatus {
    NotStarted,
    /// parked at a point; `blocked`: its last attempt failed and nobody made progress since
    AtPoint { blocked: bool, lock: LockId, op: LockOp },
    Running,
    /// running but reached no point for T_STUCK: blocked in something the scheduler cannot see
    Stuck,
    Done,
}

/// Stable identity of a lock across executions: its type and the order in which locks of that
/// type were first used (set-up phase first, then per worker)
#[derive(Clone, Debug, PartialEq, Eq, Hash, PartialOrd, Ord)]
struct LockId(String);

#[derive(Clone, Debug)]
struct Decision {
    /// workers that could be chosen (ready)
    candidates: Vec<usize>,
    chosen: usize,
    /// the worker that was running before, if it is among the candidates
    current: Option<usize>,
    lock: LockId,
}

struct Inner {
    status: Vec<WStatus>,
    turn: Option<usize>,
    turn_since: Instant,
    snapshots: Vec<i32>,
    prefix: Vec<usize>,
    decisions: Vec<Decision>,
    steps: usize,
    deadlock: Option<String>,
    diverged: Option<String>,
    stuck_events: usize,
    lock_ids: HashMap<(String, usize), LockId>,
    per_type: HashMap<String, usize>,
    /// lock id -> workers that touched it (this execution)
    touched: BTreeMap<LockId, BTreeSet<usize>>,
    shared: BTreeSet<LockId>,
    points: usize,
    abort: bool,
    /// worker that made the last successful step
    last_progress: Option<usize>,
}

struct Shared {
    inner: Mutex<Inner>,
    cv: Condvar,
}

struct Handle {
    id: usize,
    shared: Arc<Shared>,
}

impl Inner {
    fn lock_id(&mut self, worker: Option<usize>, name: &str, addr: usize) -> LockId {
        if let Some(id) = self.lock_ids.get(&(name.to_string(), addr)) {
            return id.clone();
        }
        // short type name
        let short: String = name.rsplit("::").next().unwrap_or(name).trim_end_matches('>').to_string();
        let scope = match worker {
            None => "setup".to_string(),
            Some(w) => format!("w{}", w),
        };
        let n = self.per_type.entry(format!("{}/{}", scope, short)).or_insert(0);
        let id = LockId(format!("{}#{}{}", short, scope, *n));
        *n += 1;
        self.lock_ids.insert((name.to_string(), addr), id.clone());
        id
    }

    fn ready(&self) -> Vec<usize> {
        self.status
            .iter()
            .enumerate()
            .filter(|(_, s)| matches!(s, WStatus::AtPoint { blocked: false, .. }))
            .map(|(i, _)| i)
            .collect()
    }

    /// choose who runs next; `current` is the worker that just arrived at its point (if any)
    fn schedule(&mut self, current: Option<usize>) {
        if self.abort {
            return;
        }
        if self.status.iter().any(|s| matches!(s, WStatus::NotStarted)) {
            // every worker first arrives at its start point, then the first decision is taken
            self.turn = None;
            return;
        }
        let ready = self.ready();
        if ready.is_empty() {
            let unfinished: Vec<usize> = self.status.iter().enumerate().filter(|(_, s)| !matches!(s, WStatus::Done)).map(|(i, _)| i).collect();
            if unfinished.is_empty() {
                self.turn = None;
                return;
            }
            if self.status.iter().any(|s| matches!(s, WStatus::Stuck | WStatus::Running | WStatus::NotStarted)) {
                // somebody may still arrive
                self.turn = None;
                return;
            }
            let desc: Vec<String> = self
                .status
                .iter()
                .enumerate()
                .filter_map(|(i, s)| match s {
                    WStatus::AtPoint { lock, op, .. } => Some(format!("w{} waits for {:?} {}", i, op, lock.0)),
                    _ => None,
                })
                .collect();
            self.deadlock = Some(desc.join("; "));
            self.abort = true;
            self.turn = None;
            return;
        }
        let cur_ready = current.filter(|c| ready.contains(c));
        // is this a real decision? only before operations on shared locks (of the worker that
        // would continue) or when the current worker cannot continue
        let default = cur_ready.unwrap_or(ready[0]);
        let lock = match &self.status[default] {
            WStatus::AtPoint { lock, .. } => lock.clone(),
            _ => LockId(String::new()),
        };
        let offer = ready.len() > 1 && (cur_ready.is_none() || self.shared.contains(&lock));
        let chosen = if offer {
            let d = self.decisions.len();
            let chosen = if d < self.prefix.len() {
                let c = self.prefix[d];
                if !ready.contains(&c) {
                    self.diverged = Some(format!("decision {}: prefix wants w{} but ready = {:?}", d, c, ready));
                    self.abort = true;
                    self.turn = None;
                    return;
                }
                c
            } else {
                default
            };
            self.decisions.push(Decision { candidates: ready.clone(), chosen, current: cur_ready, lock });
            chosen
        } else {
            default
        };
        self.turn = Some(chosen);
        self.turn_since = Instant::now();
    }
}

impl Handle {
    /// park until it is this worker's turn
    fn arrive(&self, blocked: bool, op: LockOp, name: &'static str, addr: usize) {
        let mut g = self.shared.inner.lock().unwrap();
        if g.abort {
            drop(g);
            abort_worker();
        }
        g.steps += 1;
        g.points += 1;
        if g.steps > MAX_STEPS {
            g.diverged = Some("step limit".into());
            g.abort = true;
            self.shared.cv.notify_all();
            drop(g);
            abort_worker();
        }
        let lock = g.lock_id(Some(self.id), name, addr);
        g.touched.entry(lock.clone()).or_default().insert(self.id);
        if !blocked {
            // I ran since my last point: whoever waited for a lock may be able to go on now
            for s in g.status.iter_mut() {
                if let WStatus::AtPoint { blocked, .. } = s {
                    *blocked = false;
                }
            }
            g.last_progress = Some(self.id);
        }
        let was_stuck = matches!(g.status[self.id], WStatus::Stuck);
        g.status[self.id] = WStatus::AtPoint { blocked, lock, op };
        let _ = was_stuck;
        if g.turn == Some(self.id) || g.turn.is_none() {
            g.turn = None;
            // at the start nobody has been running yet
            g.schedule(if name == "start" { None } else { Some(self.id) });
        }
        self.shared.cv.notify_all();
        loop {
            if g.abort {
                drop(g);
                abort_worker();
            }
            if g.turn == Some(self.id) {
                g.status[self.id] = WStatus::Running;
                g.turn_since = Instant::now();
                return;
            }
            g = self.shared.cv.wait_timeout(g, Duration::from_millis(50)).unwrap().0;
        }
    }

    fn finish(&self) {
        let mut g = self.shared.inner.lock().unwrap();
        for s in g.status.iter_mut() {
            if let WStatus::AtPoint { blocked, .. } = s {
                *blocked = false;
            }
        }
        g.status[self.id] = WStatus::Done;
        if g.turn == Some(self.id) || g.turn.is_none() {
            g.turn = None;
            g.schedule(None);
        }
        self.shared.cv.notify_all();
    }
}

/// An aborted execution (deadlock found, time limit) leaves its workers parked for ever: unwinding
/// out of arbitrary gluon code is not safe (it may cross an `extern "C"` frame) and the world
/// of the execution is leaked anyway
fn abort_worker() -> ! {
    loop {
        std::thread::sleep(Duration::from_secs(3600));
    }
}

impl Scheduler for Handle {
    fn before(&self, op: LockOp, type_name: &'static str, addr: usize) {
        self.arrive(false, op, type_name, addr);
    }
    fn would_block(&self, op: LockOp, type_name: &'static str, addr: usize) {
        // the attempt failed: park as blocked; `before` is called again by the retry loop, make
        // that second call a no-op by remembering the state
        let mut g = self.shared.inner.lock().unwrap();
        let lock = g.lock_id(Some(self.id), type_name, addr);
        g.status[self.id] = WStatus::AtPoint { blocked: true, lock, op };
        RETRY.with(|r| r.set(true));
        drop(g);
    }
    fn acquired(&self, _op: LockOp, _type_name: &'static str, _addr: usize) {}
    fn snapshot(&self, delta: i32) {
        let mut g = self.shared.inner.lock().unwrap();
        g.snapshots[self.id] += delta;
    }
    fn db_write_enabled(&self) -> bool {
        let g = self.shared.inner.lock().unwrap();
        g.snapshots.iter().enumerate().all(|(i, n)| i == self.id || *n <= 0)
    }
}

thread_local! {
    static RETRY: std::cell::Cell<bool> = std::cell::Cell::new(false);
}

/// `before` as seen by the wrappers: the first call of an acquisition is a normal point, the call
/// after a failed attempt parks the worker as blocked
struct WorkerScheduler(Handle);

impl Scheduler for WorkerScheduler {
    fn before(&self, op: LockOp, type_name: &'static str, addr: usize) {
        let retry = RETRY.with(|r| r.replace(false));
        self.0.arrive(retry, op, type_name, addr);
    }
    fn would_block(&self, op: LockOp, type_name: &'static str, addr: usize) {
        self.0.would_block(op, type_name, addr)
    }
    fn acquired(&self, op: LockOp, type_name: &'static str, addr: usize) {
        // a second point right after the acquisition: another worker may run while this one is
        // inside its critical section (what a `try_lock` elsewhere observes depends on it)
        if op != LockOp::DbWrite {
            self.0.arrive(false, op, type_name, addr);
        }
    }
    fn snapshot(&self, delta: i32) {
        self.0.snapshot(delta)
    }
    fn db_write_enabled(&self) -> bool {
        self.0.db_write_enabled()
    }
}

/// scheduler of the single threaded set-up phase: only names the locks in order of first use
struct SetupScheduler(Arc<Shared>);

impl Scheduler for SetupScheduler {
    fn before(&self, _op: LockOp, type_name: &'static str, addr: usize) {
        let mut g = self.0.inner.lock().unwrap();
        g.lock_id(None, type_name, addr);
    }
    fn would_block(&self, _: LockOp, _: &'static str, _: usize) {
        // single threaded: a lock that cannot be taken is a self deadlock; let the real lock block
        std::thread::sleep(Duration::from_millis(1));
    }
    fn acquired(&self, _: LockOp, _: &'static str, _: usize) {}
    fn snapshot(&self, _: i32) {}
    fn db_write_enabled(&self) -> bool {
        true
    }
}

// ---------------------------------------------------------------------------------------------
// scenarios

const MODULE_M: &str = "let { tick } = import! verif.prim\nlet _ = tick \"m\"\n{ x = 20, f = \\y -> y #Int+ 1 }";
const MODULE_M2: &str = "let { tick } = import! verif.prim\nlet _ = tick \"m\"\n{ x = 40, f = \\y -> y #Int+ 2 }";
const ALLOC: &str = "type V = | A | C Int V\nrec\nlet build n acc = if n #Int== 0 then acc else build (n #Int- 1) (C n acc)\nlet len v acc =\n    match v with\n    | A -> acc\n    | C _ rest -> len rest (acc #Int+ 1)\nin len (build 30 A) 0";

#[derive(Clone, Copy, Debug, PartialEq)]
enum Job {
    /// run_expr importing the shared module m (not evaluated yet)
    ImportM,
    /// run_expr importing m and std.types
    ImportM2,
    /// load_script of a changed source for m
    ReloadM,
    /// allocate on the worker's own child thread
    Alloc,
    /// allocate on the ROOT thread (its collections scan every child)
    AllocRoot,
    /// host collection of the root thread
    CollectRoot,
    /// send 3 values into a channel owned by the root thread
    Send,
    /// receive up to 3 values from that channel
    Recv,
    /// create a new gluon thread from the worker's thread and run on it
    Spawn,
    /// send 3 heap values (strings built at run time) into the root-owned channel, then receive them
    SendRecvStr,
    /// send 3 heap values into the root-owned channel; they are received and compared after all
    /// workers have finished
    SendStr,
    /// (internal) receive everything that is queued, on the root thread, after the workers are done
    DrainStr,
}

fn job_name(j: Job) -> &'static str {
    match j {
        Job::ImportM => "import-m",
        Job::ImportM2 => "import-m-and-types",
        Job::ReloadM => "reload-m",
        Job::Alloc => "alloc",
        Job::AllocRoot => "alloc-root",
        Job::CollectRoot => "collect-root",
        Job::Send => "send",
        Job::Recv => "recv",
        Job::Spawn => "spawn",
        Job::SendRecvStr => "send-then-recv-strings",
        Job::SendStr => "send-strings",
        Job::DrainStr => "drain",
    }
}

fn job_parse(s: &str) -> Option<Job> {
    [Job::ImportM, Job::ImportM2, Job::ReloadM, Job::Alloc, Job::AllocRoot, Job::CollectRoot, Job::Send, Job::Recv, Job::Spawn, Job::SendRecvStr, Job::SendStr]
        .iter()
        .cloned()
        .find(|j| job_name(*j) == s)
}

type H = gluon::vm::api::OpaqueValue<RootedThread, gluon::vm::api::Hole>;

struct World {
    root: RootedThread,
    children: Vec<RootedThread>,
    /// a channel created on (and owned by) the root thread
    chan: Option<H>,
}

fn setup(n: usize, needs_channel: bool, strings: bool) -> World {
    let root = vmkit::make_vm_with_prim(Settings { run_io: true, ..Settings::bare() });
    let _ = vmkit::run(&root, "warm", "let _ = import! std.types\nlet _ = import! std.prim\nlet _ = import! verif.prim\nlet _ = import! std.io.prim\nlet _ = import! std.channel\n0");
    root.get_database_mut().add_module("m".into(), MODULE_M);
    let chan = if needs_channel {
        // a channel owned by the root thread; the workers get it as an argument (children may
        // share the values of their parent)
        let seed = if strings { "\"\"" } else { "0" };
        root.run_expr::<H>("mkchan", &format!("let {{ channel }} = import! std.channel\nchannel {}", seed)).ok().map(|x| x.0)
    } else {
        None
    };
    let children = (0..n).map(|_| root.new_thread().expect("child thread")).collect();
    World { root, children, chan }
}

fn run_job(w: &World, me: usize, job: Job) -> String {
    let t = if job == Job::DrainStr { &w.root } else { &w.children[me] };
    let name = format!("main{}", me);
    let o = match job {
        Job::ImportM => vmkit::run(t, &name, "let m = import! m\nm.f m.x"),
        Job::ImportM2 => vmkit::run(t, &name, "let { Bool } = import! std.types\nlet m = import! m\nif True then m.x #Int+ 1 else 0"),
        Job::ReloadM => {
            let r = std::panic::catch_unwind(std::panic::AssertUnwindSafe(|| t.load_script("m", MODULE_M2)));
            return match r {
                Ok(Ok(())) => "loaded".to_string(),
                Ok(Err(e)) => format!("error: {}", vmkit::first_line(&e.to_string())),
                Err(p) => format!("host panic: {}", vmkit::panic_message(&p)),
            };
        }
        Job::Alloc => vmkit::run(t, &name, ALLOC),
        Job::AllocRoot => vmkit::run(&w.root, &name, ALLOC),
        Job::CollectRoot => {
            w.root.collect();
            w.root.collect();
            return "collected".to_string();
        }
        Job::Send | Job::Recv | Job::SendRecvStr | Job::SendStr | Job::DrainStr => {
            let src = if job == Job::DrainStr {
                "let { recv } = import! std.channel\nlet { Result } = import! std.types\nlet { flat_map, wrap } = import! std.io.prim\nlet v r =\n    match r with\n    | Ok x -> x\n    | Err _ -> \"<empty>\"\n\\c ->\n    do a = recv c.receiver\n    do b = recv c.receiver\n    do d = recv c.receiver\n    do e = recv c.receiver\n    wrap [v a, v b, v d, v e]"
            } else if job == Job::SendStr {
                "let { send } = import! std.channel\nlet string = import! std.string.prim\nlet { flat_map, wrap } = import! std.io.prim\n\\c ->\n    do _ = send c.sender (string.append \"first-\" \"message\")\n    do _ = send c.sender (string.append \"second-\" \"message\")\n    do _ = send c.sender (string.append \"third-\" \"message\")\n    wrap [\"sent\"]"
            } else if job == Job::SendRecvStr {
                "let { send, recv } = import! std.channel\nlet { Result } = import! std.types\nlet string = import! std.string.prim\nlet { flat_map, wrap } = import! std.io.prim\nlet v r =\n    match r with\n    | Ok x -> x\n    | Err _ -> \"<empty>\"\n\\c ->\n    do _ = send c.sender (string.append \"first-\" \"message\")\n    do _ = send c.sender (string.append \"second-\" \"message\")\n    do _ = send c.sender (string.append \"third-\" \"message\")\n    do a = recv c.receiver\n    do b = recv c.receiver\n    do d = recv c.receiver\n    wrap [v a, v b, v d]"
            } else if job == Job::Send {
                "let { send } = import! std.channel\nlet { flat_map, wrap } = import! std.io.prim\n\\c ->\n    do _ = send c.sender 1\n    do _ = send c.sender 2\n    do _ = send c.sender 3\n    wrap [3]"
            } else {
                "let { recv } = import! std.channel\nlet { Result } = import! std.types\nlet { flat_map, wrap } = import! std.io.prim\nlet v r =\n    match r with\n    | Ok x -> x\n    | Err _ -> 0\n\\c ->\n    do a = recv c.receiver\n    do b = recv c.receiver\n    do d = recv c.receiver\n    wrap [v a, v b, v d]"
            };
            let r = std::panic::catch_unwind(std::panic::AssertUnwindSafe(|| -> Result<String, String> {
                let mut f = t
                    .run_expr::<gluon::vm::api::OwnedFunction<fn(H) -> gluon::vm::api::IO<H>>>(&name, src)
                    .map_err(|e| format!("error: {}", vmkit::first_line(&e.to_string())))?
                    .0;
                let chan = w.chan.clone().ok_or("no channel")?;
                match f.call(chan) {
                    Ok(gluon::vm::api::IO::Value(v)) => Ok(format!("{:?}", vmkit::walk(v.get_ref(), 10))),
                    Ok(gluon::vm::api::IO::Exception(e)) => Ok(format!("exception: {}", vmkit::first_line(&e))),
                    Err(e) => Ok(format!("error: {}", vmkit::first_line(&e.to_string()))),
                }
            }));
            return match r {
                Ok(Ok(s)) | Ok(Err(s)) => s,
                Err(p) => format!("host panic: {}", vmkit::panic_message(&p)),
            };
        }
        Job::Spawn => {
            let r = std::panic::catch_unwind(std::panic::AssertUnwindSafe(|| t.new_thread()));
            match r {
                Ok(Ok(nt)) => vmkit::run(&nt, &name, ALLOC),
                Ok(Err(e)) => return format!("error: {}", e),
                Err(p) => return format!("host panic: {}", vmkit::panic_message(&p)),
            }
        }
    };
    format!("{:?}", o)
}

// ---------------------------------------------------------------------------------------------
// one execution

struct Execution {
    results: Vec<Option<String>>,
    decisions: Vec<Decision>,
    deadlock: Option<String>,
    diverged: Option<String>,
    stuck_events: usize,
    points: usize,
    ticks_m: u64,
    touched: BTreeMap<LockId, BTreeSet<usize>>,
    timed_out: bool,
}

fn execute(jobs: &[Job], prefix: &[usize], shared_locks: &BTreeSet<LockId>) -> Execution {
    let n = jobs.len();
    let shared = Arc::new(Shared {
        inner: Mutex::new(Inner {
            status: vec![WStatus::NotStarted; n],
            turn: None,
            turn_since: Instant::now(),
            snapshots: vec![0; n],
            prefix: prefix.to_vec(),
            decisions: Vec::new(),
            steps: 0,
            deadlock: None,
            diverged: None,
            stuck_events: 0,
            lock_ids: HashMap::new(),
            per_type: HashMap::new(),
            touched: BTreeMap::new(),
            shared: shared_locks.clone(),
            points: 0,
            abort: false,
            last_progress: None,
        }),
        cv: Condvar::new(),
    });
    // set-up on this thread, naming the locks
    vmkit::take_ticks();
    let needs_channel = jobs.iter().any(|j| matches!(j, Job::Send | Job::Recv | Job::SendRecvStr | Job::SendStr));
    let strings = jobs.contains(&Job::SendRecvStr) || jobs.contains(&Job::SendStr);
    // the set-up runs on a thread of its own so that a set-up that never finishes (a lock taken
    // twice by the same thread) is a verdict and not a hang of the explorer
    let world = {
        let (tx, rx) = std::sync::mpsc::channel();
        let shared2 = shared.clone();
        std::thread::Builder::new()
            .stack_size(32 << 20)
            .spawn(move || {
                verif::set_scheduler(Some(Arc::new(SetupScheduler(shared2))));
                let w = setup(n, needs_channel, strings);
                verif::set_scheduler(None);
                let _ = tx.send((w, vmkit::ticks_of("m")));
            })
            .unwrap();
        match rx.recv_timeout(Duration::from_secs(30)) {
            Ok((w, _)) => Arc::new(w),
            Err(_) => {
                return Execution {
                    results: vec![None; n],
                    decisions: Vec::new(),
                    deadlock: Some("the single threaded set-up (VM creation, module registration, Thread::new_thread for every worker) does not finish: a thread waits for a lock it holds itself".to_string()),
                    diverged: None,
                    stuck_events: 0,
                    points: 0,
                    ticks_m: 0,
                    touched: BTreeMap::new(),
                    timed_out: false,
                }
            }
        }
    };
    let tick_counter = Arc::new(Mutex::new(0u64));
    let results: Arc<Mutex<Vec<Option<String>>>> = Arc::new(Mutex::new(vec![None; n]));
    let mut handles = Vec::new();
    for (i, job) in jobs.iter().cloned().enumerate() {
        let shared = shared.clone();
        let world = world.clone();
        let results = results.clone();
        let tick_counter = tick_counter.clone();
        handles.push(
            std::thread::Builder::new()
                .stack_size(32 << 20)
                .spawn(move || {
                    vmkit::record_panics();
                    // freed blocks are poisoned and never reused: a value freed by a collection that
                    // raced with this or another worker is read as garbage, deterministically
                    verif::reset(true);
                    verif::with(|s| s.quarantine = true);
                    let h = Handle { id: i, shared: shared.clone() };
                    verif::set_scheduler(Some(Arc::new(WorkerScheduler(Handle { id: i, shared: shared.clone() }))));
                    let r = std::panic::catch_unwind(std::panic::AssertUnwindSafe(|| {
                        // the start of a worker is a point like any other
                        h.arrive(false, LockOp::Lock, "start", i);
                        run_job(&world, i, job)
                    }));
                    verif::set_scheduler(None);
                    *tick_counter.lock().unwrap() += vmkit::ticks_of("m");
                    match r {
                        Ok(s) => results.lock().unwrap()[i] = Some(s),
                        Err(p) => results.lock().unwrap()[i] = Some(format!("host panic: {}", vmkit::panic_message(&p))),
                    }
                    h.finish();
                })
                .unwrap(),
        );
    }
    // watchdog: stuck detection and overall time limit
    let start = Instant::now();
    let mut timed_out = false;
    let mut last_retry = Instant::now();
    loop {
        std::thread::sleep(Duration::from_millis(5));
        let mut g = shared.inner.lock().unwrap();
        if g.status.iter().all(|s| matches!(s, WStatus::Done)) || g.abort {
            break;
        }
        if start.elapsed() > T_EXECUTION {
            timed_out = true;
            g.abort = true;
            shared.cv.notify_all();
            break;
        }
        // a running worker that reaches no point
        let running: Vec<usize> = g.status.iter().enumerate().filter(|(_, s)| matches!(s, WStatus::Running)).map(|(i, _)| i).collect();
        if let Some(&r) = running.first() {
            if g.turn_since.elapsed() > T_STUCK {
                g.status[r] = WStatus::Stuck;
                g.stuck_events += 1;
                g.turn = None;
                g.schedule(None);
                shared.cv.notify_all();
            }
        } else if g.turn.is_none() && !g.ready().is_empty() {
            g.schedule(None);
            shared.cv.notify_all();
        } else if g.turn.is_none() {
            // nobody ready and nobody running: stuck workers only, or a deadlock
            let any_stuck = g.status.iter().any(|s| matches!(s, WStatus::Stuck | WStatus::NotStarted));
            if !any_stuck {
                g.schedule(None);
                shared.cv.notify_all();
            } else if g.status.iter().any(|s| matches!(s, WStatus::AtPoint { blocked: true, .. })) && last_retry.elapsed() > Duration::from_millis(200) {
                // a worker that is blocked invisibly may have released locks before it blocked
                // (it never arrived at another point, so nobody cleared the flags): let the
                // workers that wait for a lock try again
                last_retry = Instant::now();
                for s in g.status.iter_mut() {
                    if let WStatus::AtPoint { blocked, .. } = s {
                        *blocked = false;
                    }
                }
                let since = g.turn_since;
                g.schedule(None);
                // the 30 s deadline below counts from the moment nobody could run
                if g.turn.is_none() {
                    g.turn_since = since;
                }
                shared.cv.notify_all();
            } else if g.turn_since.elapsed() > Duration::from_secs(30) {
                // workers blocked in something invisible for 30 s while nobody else can run
                let desc: Vec<String> = g.status.iter().enumerate().map(|(i, s)| format!("w{}: {:?}", i, s)).collect();
                g.deadlock = Some(format!("no worker can run and the blocked ones never return: {}", desc.join("; ")));
                g.abort = true;
                shared.cv.notify_all();
                break;
            }
        }
    }
    let aborted = shared.inner.lock().unwrap().abort;
    if aborted {
        // workers parked at a point unwind; workers blocked for real cannot be joined
        shared.cv.notify_all();
        let deadline = Instant::now() + Duration::from_secs(2);
        for h in handles {
            while !h.is_finished() && Instant::now() < deadline {
                std::thread::sleep(Duration::from_millis(5));
                shared.cv.notify_all();
            }
            if h.is_finished() {
                let _ = h.join();
            }
        }
        // the world may still be referenced by a blocked worker: leak it
        std::mem::forget(world);
    } else {
        for h in handles {
            let _ = h.join();
        }
        // what the workers left in the channel is received now, single threaded: every queued
        // message must have survived the collections that ran while it was being sent
        if jobs.contains(&Job::SendStr) {
            let drained = run_job(&world, 0, Job::DrainStr);
            let mut r = results.lock().unwrap();
            for (i, j) in jobs.iter().enumerate() {
                if *j == Job::SendStr {
                    if let Some(x) = r[i].as_mut() {
                        x.push_str(" | queue afterwards: ");
                        x.push_str(&drained);
                    }
                }
            }
        }
        drop(world);
    }
    let g = shared.inner.lock().unwrap();
    let ticks = *tick_counter.lock().unwrap() + vmkit::ticks_of("m");
    let results_now: Vec<Option<String>> = results.lock().unwrap().clone();
    Execution {
        results: results_now,
        decisions: g.decisions.clone(),
        deadlock: g.deadlock.clone(),
        diverged: g.diverged.clone(),
        stuck_events: g.stuck_events,
        points: g.points,
        ticks_m: ticks,
        touched: g.touched.clone(),
        timed_out,
    }
}

/// result of worker `i` when it runs alone (the other workers do nothing)
fn solo(jobs: &[Job], i: usize) -> String {
    vmkit::take_ticks();
    let needs_channel = jobs.iter().any(|j| matches!(j, Job::Send | Job::Recv | Job::SendRecvStr | Job::SendStr));
    let (tx, rx) = std::sync::mpsc::channel();
    let (n, job) = (jobs.len(), jobs[i]);
    let strings = jobs.contains(&Job::SendRecvStr) || jobs.contains(&Job::SendStr);
    std::thread::Builder::new()
        .stack_size(32 << 20)
        .spawn(move || {
            let world = setup(n, needs_channel, strings);
            let mut r = run_job(&world, i, job);
            if job == Job::SendStr {
                r.push_str(" | queue afterwards: ");
                r.push_str(&run_job(&world, 0, Job::DrainStr));
            }
            let _ = tx.send(r);
        })
        .unwrap();
    rx.recv_timeout(Duration::from_secs(60)).unwrap_or_else(|_| "<the worker does not finish even when it runs alone>".to_string())
}

// ---------------------------------------------------------------------------------------------
// exploration of one scenario (inside the isolated worker process)

fn preemptions(ds: &[Decision]) -> usize {
    ds.iter().filter(|d| d.current.map_or(false, |c| c != d.chosen)).count()
}

fn explore(jobs: &[Job], bound: usize, budget: Duration, max_exec: usize) -> Value {
    let start = Instant::now();
    let n = jobs.len();
    let solos: Vec<String> = (0..n).map(|i| solo(jobs, i)).collect();
    let mut shared: BTreeSet<LockId> = BTreeSet::new();
    let mut problems: Vec<Value> = Vec::new();
    let mut executions = 0usize;
    let mut transitions = 0usize;
    let mut states: BTreeSet<String> = BTreeSet::new();
    let mut stuck_executions = 0usize;
    let mut diverged_executions = 0usize;
    let mut diverged_samples: Vec<String> = Vec::new();
    let mut points_total = 0usize;
    let mut distinct_outcomes: BTreeSet<String> = BTreeSet::new();
    let mut capped = false;
    let mut completed_bound: i64 = -1;
    let mut sample_schedules: Vec<Value> = Vec::new();
    let mut rounds = 0;
    'fix: loop {
        rounds += 1;
        let mut new_shared = shared.clone();
        // worklist ordered by number of preemptions: everything with 0, then 1, then 2 ...
        let mut work: BTreeSet<(usize, Vec<usize>)> = BTreeSet::new();
        let mut seen_prefixes: BTreeSet<Vec<usize>> = BTreeSet::new();
        work.insert((0, vec![]));
        completed_bound = -1;
        while let Some((cost, prefix)) = work.iter().next().cloned() {
            work.remove(&(cost, prefix.clone()));
            completed_bound = cost as i64 - 1;
            if start.elapsed() > budget || executions >= max_exec {
                capped = true;
                break 'fix;
            }
            if std::env::var_os("VERIF_DEBUG").is_some() {
                eprintln!("exec cost {} prefix {:?}", cost, prefix);
            }
            let ex = execute(jobs, &prefix, &shared);
            executions += 1;
            points_total += ex.points;
            transitions += ex.decisions.len();
            if ex.stuck_events > 0 {
                stuck_executions += 1;
            }
            for (l, ws) in &ex.touched {
                if ws.len() >= 2 {
                    new_shared.insert(l.clone());
                }
            }
            let schedule: Vec<usize> = ex.decisions.iter().map(|d| d.chosen).collect();
            for k in 0..=schedule.len() {
                states.insert(format!("{:?}", &schedule[..k]));
            }
            if sample_schedules.len() < 3 && (cost > 0 || sample_schedules.is_empty()) {
                sample_schedules.push(json!({"jobs": jobs.iter().map(|j| job_name(*j)).collect::<Vec<_>>(), "schedule": schedule,
                    "decision_locks": ex.decisions.iter().map(|d| d.lock.0.clone()).collect::<Vec<_>>(), "results": ex.results}));
            }
            distinct_outcomes.insert(format!("{:?}|{}", ex.results, ex.ticks_m));
            // ---- oracle
            let key_jobs = jobs.iter().map(|j| job_name(*j)).collect::<Vec<_>>().join("+");
            let replay = json!({"jobs": jobs.iter().map(|j| job_name(*j)).collect::<Vec<_>>(), "schedule": schedule, "shared": shared.iter().map(|l| l.0.clone()).collect::<Vec<_>>()});
            if let Some(d) = &ex.diverged {
                // the stuck timeout makes a schedule depend on timing when the machine is
                // overloaded: such an execution is not explored (counted), it is never a verdict
                diverged_executions += 1;
                if diverged_samples.len() < 3 {
                    diverged_samples.push(d.clone());
                }
            } else if let Some(d) = &ex.deadlock {
                // the key names the waits-for set (operation and lock type), not the scenario:
                // one lock-order defect has one key whatever jobs expose it
                let mut waits: Vec<String> = d
                    .split("; ")
                    .filter_map(|w| w.split(" waits for ").nth(1))
                    .map(|w| w.split('#').next().unwrap_or(w).to_string())
                    .collect();
                waits.sort();
                waits.dedup();
                let kind = if waits.is_empty() { format!("deadlock:{}", key_jobs) } else { format!("deadlock:waits-for[{}]", waits.join(", ")) };
                problems.push(json!({"kind": kind, "what": format!("[{}] schedule {:?}: {}", key_jobs, schedule, d), "replay": replay, "stuck": ex.stuck_events}));
            } else if ex.timed_out {
                problems.push(json!({"kind": format!("no-termination:{}", key_jobs), "what": format!("schedule {:?}: the execution did not finish within {:?}", schedule, T_EXECUTION), "replay": replay, "stuck": ex.stuck_events}));
            } else {
                for i in 0..n {
                    let got = ex.results[i].clone().unwrap_or_else(|| "<no result>".into());
                    let ok = match jobs[i] {
                        // a receiver sees a prefix of 1,2,3 (then 0s), whatever the schedule
                        // FIFO, exactly once: the values received are a prefix of 1, 2, 3 in that order
                        // (0 stands for "the channel was empty at that moment")
                        Job::Recv => {
                            let nums: Vec<i64> = got.split("Int(").skip(1).filter_map(|x| x.split(')').next().and_then(|n| n.parse().ok())).collect();
                            let nonzero: Vec<i64> = nums.iter().cloned().filter(|x| *x != 0).collect();
                            got.starts_with("Array(") && nums.len() == 3 && nonzero.iter().enumerate().all(|(k, v)| *v == k as i64 + 1)
                        }
                        // the reloader races with the importers by design: an importer sees the old or the new module
                        Job::ImportM | Job::ImportM2 if jobs.contains(&Job::ReloadM) => got == solos[i] || got.contains("Int(42)") || got.contains("Int(41)"),
                        _ => got == solos[i],
                    };
                    if !ok {
                        let class: String = got.chars().filter(|c| !c.is_ascii_digit()).take(60).collect();
                        problems.push(json!({"kind": format!("result-differs-from-solo:{}:w{}:{}:{}", key_jobs, i, job_name(jobs[i]), class),
                            "what": format!("schedule {:?}: worker {} ({}) gives {} but {} when run alone", schedule, i, job_name(jobs[i]), got, solos[i]), "replay": replay}));
                    }
                }
                let reloads = jobs.iter().filter(|j| **j == Job::ReloadM).count() as u64;
                if ex.ticks_m > 1 + reloads {
                    problems.push(json!({"kind": format!("module-body-evaluated-more-than-once:{}", key_jobs), "what": format!("schedule {:?}: the body of module m ran {} times", schedule, ex.ticks_m), "replay": replay}));
                }
            }
            if problems.len() >= 6 {
                break 'fix;
            }
            if ex.diverged.is_some() {
                continue;
            }
            // ---- children: deviate at every later decision
            for i in prefix.len()..ex.decisions.len() {
                let d = &ex.decisions[i];
                let before = preemptions(&ex.decisions[..i]);
                for alt in &d.candidates {
                    if *alt == d.chosen {
                        continue;
                    }
                    let c = before + if d.current.map_or(false, |c| c != *alt) { 1 } else { 0 };
                    if c > bound {
                        continue;
                    }
                    let mut p: Vec<usize> = ex.decisions[..i].iter().map(|d| d.chosen).collect();
                    p.push(*alt);
                    if seen_prefixes.insert(p.clone()) {
                        work.insert((c, p));
                    }
                }
            }
        }
        completed_bound = bound as i64;
        if new_shared == shared || rounds >= 4 {
            break;
        }
        shared = new_shared;
    }
    json!({
        "jobs": jobs.iter().map(|j| job_name(*j)).collect::<Vec<_>>(),
        "executions": executions,
        "transitions": transitions,
        "states": states.len(),
        "stuck_executions": stuck_executions,
        "diverged_executions": diverged_executions,
        "diverged_samples": diverged_samples,
        "points_total": points_total,
        "shared_locks": shared.iter().map(|l| l.0.clone()).collect::<Vec<_>>(),
        "distinct_outcomes": distinct_outcomes.len(),
        "completed_preemption_bound": completed_bound,
        "capped": capped,
        "rounds": rounds,
        "solo": solos,
        "problems": problems,
        "samples": sample_schedules,
    })
}

// ---------------------------------------------------------------------------------------------
// worker process entry and parent

pub fn worker(payload: &str) -> String {
    let c: Value = match serde_json::from_str(payload) {
        Ok(v) => v,
        Err(e) => return json!({"error": format!("bad case: {}", e)}).to_string(),
    };
    let jobs: Vec<Job> = c["jobs"].as_array().map(|a| a.iter().filter_map(|x| x.as_str().and_then(job_parse)).collect()).unwrap_or_default();
    if let Some(s) = c.get("schedule").and_then(|s| s.as_array()) {
        // replay one schedule twice: the observations must be identical
        let prefix: Vec<usize> = s.iter().filter_map(|x| x.as_u64().map(|x| x as usize)).collect();
        let shared: BTreeSet<LockId> = c["shared"].as_array().map(|a| a.iter().filter_map(|x| x.as_str().map(|s| LockId(s.to_string()))).collect()).unwrap_or_default();
        let a = execute(&jobs, &prefix, &shared);
        let b = execute(&jobs, &prefix, &shared);
        return json!({"replay": true, "results": a.results, "results_again": b.results, "deadlock": a.deadlock, "deadlock_again": b.deadlock,
            "diverged": a.diverged, "timed_out": a.timed_out, "ticks": a.ticks_m, "stuck": a.stuck_events}).to_string();
    }
    let bound = c["bound"].as_u64().unwrap_or(1) as usize;
    let budget = Duration::from_secs(c["budget_s"].as_u64().unwrap_or(20));
    let max_exec = c["max_exec"].as_u64().unwrap_or(100_000) as usize;
    explore(&jobs, bound, budget, max_exec).to_string()
}

fn scenarios(tier: &str) -> Vec<Vec<Job>> {
    let mut v = vec![
        vec![Job::ImportM, Job::ImportM],
        vec![Job::ImportM, Job::ImportM2],
        vec![Job::ImportM, Job::ReloadM],
        vec![Job::Alloc, Job::CollectRoot],
        vec![Job::Alloc, Job::AllocRoot],
        vec![Job::Send, Job::Recv],
        vec![Job::Spawn, Job::CollectRoot],
        vec![Job::Spawn, Job::Spawn],
        vec![Job::Recv, Job::CollectRoot],
        vec![Job::Send, Job::AllocRoot],
        vec![Job::SendRecvStr, Job::CollectRoot],
        vec![Job::SendStr, Job::CollectRoot],
        vec![Job::SendStr, Job::AllocRoot],
    ];
    if tier != "quick" {
        v.push(vec![Job::ImportM, Job::ImportM2, Job::CollectRoot]);
        v.push(vec![Job::Alloc, Job::AllocRoot, Job::Spawn]);
        v.push(vec![Job::Send, Job::Recv, Job::CollectRoot]);
        v.push(vec![Job::ImportM, Job::Alloc, Job::ReloadM]);
    }
    v
}

pub fn run(tier: &str) -> Report {
    let mut report = Report::new("C14", tier, "model_checking");
    let quick = tier == "quick";
    let deadline = par::deadline_for(tier, 50, 1500);
    let scs = scenarios(tier);
    let budget = if quick { 35 } else { 1200 };
    let cases: Vec<String> = scs
        .iter()
        .map(|jobs| {
            let bound = if quick { 1 } else if jobs.len() == 2 { 2 } else { 1 };
            json!({"jobs": jobs.iter().map(|j| job_name(*j)).collect::<Vec<_>>(), "bound": bound, "budget_s": budget, "max_exec": if quick { 4000 } else { 400000 }}).to_string()
        })
        .collect();
    let iso = isolate::run_isolated("c14", &cases, par::n_workers().min(cases.len()), Duration::from_secs(budget + 60), Some(deadline));
    let mut states = 0u64;
    let mut transitions = 0u64;
    let mut executions = 0u64;
    let mut stuck = 0u64;
    let mut diverged = 0u64;
    let mut exhaustive = !iso.capped;
    let mut per_scenario = Vec::new();
    for (i, o) in iso.outcomes.iter().enumerate() {
        let name = scs[i].iter().map(|j| job_name(*j)).collect::<Vec<_>>().join("+");
        match o {
            None => exhaustive = false,
            Some(CaseOutcome::Done(res)) => {
                let r: Value = serde_json::from_str(res).unwrap_or(json!({}));
                if let Some(e) = r.get("error") {
                    report.machinery(format!("{}: {}", name, e));
                    continue;
                }
                states += r["states"].as_u64().unwrap_or(0);
                transitions += r["transitions"].as_u64().unwrap_or(0);
                executions += r["executions"].as_u64().unwrap_or(0);
                stuck += r["stuck_executions"].as_u64().unwrap_or(0);
                diverged += r["diverged_executions"].as_u64().unwrap_or(0);
                if r["capped"].as_bool().unwrap_or(false) {
                    exhaustive = false;
                }
                per_scenario.push(json!({"scenario": name, "executions": r["executions"], "decisions": r["transitions"], "scheduling_points": r["points_total"],
                    "shared_locks": r["shared_locks"], "distinct_outcomes": r["distinct_outcomes"], "completed_preemption_bound": r["completed_preemption_bound"],
                    "executions_that_needed_the_stuck_timeout": r["stuck_executions"], "diverged_executions": r["diverged_executions"], "capped": r["capped"], "solo_results": r["solo"]}));
                for s in r["samples"].as_array().cloned().unwrap_or_default().into_iter().take(1) {
                    report.sample(s);
                }
                for p in r["problems"].as_array().cloned().unwrap_or_default() {
                    let kind = p["kind"].as_str().unwrap_or("?");
                    if kind.starts_with("machinery:") {
                        report.machinery(format!("{}: {}", name, p["what"].as_str().unwrap_or("")));
                        continue;
                    }
                    report.violation(format!("c14:{}", kind), format!("[{}] {}", name, p["what"].as_str().unwrap_or("")), p["replay"].clone());
                }
            }
            Some(CaseOutcome::Crashed(st)) => report.violation(
                format!("c14:process-died:{}", name),
                format!("[{}] the process died during the exploration: {}", name, st),
                json!({"jobs": scs[i].iter().map(|j| job_name(*j)).collect::<Vec<_>>()}),
            ),
            Some(CaseOutcome::Hung) => report.machinery(format!("[{}] exploration exceeded its time limit", name)),
        }
    }
    report.set("states", states);
    report.set("transitions", transitions);
    report.set("traces_validated_against_impl", executions);
    report.set("executions", executions);
    report.set("executions_that_needed_the_stuck_timeout", stuck);
    report.set("executions_not_explored_because_the_replay_diverged", diverged);
    if diverged > 0 {
        exhaustive = false;
    }
    if executions > 0 && diverged * 5 > executions {
        report.machinery(format!("{} of {} executions diverged from their schedule prefix: the machine is too loaded for the stuck timeout", diverged, executions));
    }
    report.set("scenarios", json!(per_scenario));
    report.set("exhaustive", exhaustive);
    report.set("wall_cap_hit", !exhaustive);
    report.assume("interleavings are sequentially consistent and at the granularity of lock acquisitions of the instrumented locks (std Mutex/RwLock of vm/src/{thread,vm,channel}.rs and src/{import,query}.rs) and of database writes; Relaxed atomics, data races inside unsafe code, parking_lot locks and salsa's internal synchronisation are not scheduling points");
    report.assume("blocking the scheduler cannot see is handled by a 250 ms stuck timeout; executions that needed it are counted and do not run under full control");
    report.assume("2 (quick) or 2-3 (thorough) OS threads on sibling gluon threads of one VM created with new_vm() (imports run inline); tokio spawned imports are not explored");
    report.assume("a worker that reloads the shared module races with its importers by design: an importer may see the old or the new module, never anything else");
    report
}

pub fn replay(v: &Value) -> Report {
    let mut report = Report::new("C14", "quick", "model_checking");
    let iso = isolate::run_isolated("c14", &[v.to_string()], 1, Duration::from_secs(120), None);
    println!("case: {}\nresult: {:?}", v, iso.outcomes[0]);
    match &iso.outcomes[0] {
        Some(CaseOutcome::Done(res)) => {
            let r: Value = serde_json::from_str(res).unwrap_or(json!({}));
            if !r["deadlock"].is_null() || r["timed_out"].as_bool().unwrap_or(false) {
                report.violation("replay", "reproduced", v.clone());
            }
            if r["results"] != r["results_again"] || r["deadlock"].is_null() != r["deadlock_again"].is_null() {
                report.machinery("the same schedule gave different observations when replayed twice");
            }
        }
        Some(_) => report.violation("replay", "reproduced (process died or hung)", v.clone()),
        None => {}
    }
    report
}
