//! C16 — compilation and evaluation are deterministic.
//! Observation of a program = (walked value, reported type text) or the rendered diagnostics
//! text. Enumerated: every program of a set S on two fresh VMs; every ordered pair and every
//! order of every 4-subset of a core set as a history on ONE VM (each program's observation must
//! equal its fresh-VM observation); the whole set in k fresh OS processes (per-process hash seeds,
//! ASLR) — that last dimension is sampled, not enumerated, and is reported as such.

use crate::engines::c01::fnv;
use crate::engines::c02::token_mutants;
use crate::isolate::{self, CaseOutcome};
use crate::lang::gen::{top_types, Cfg, Gen};
use crate::lang::templates;
use crate::lang::term::*;
use crate::par;
use crate::report::Report;
use crate::vmkit::{self, Settings};
use gluon::vm::api::{Hole, OpaqueValue};
use gluon::{RootedThread, ThreadExt};
use serde_json::{json, Value};
use std::collections::BTreeMap;
use std::time::Duration;

pub fn observe(vm: &RootedThread, name: &str, src: &str) -> String {
    let r = std::panic::catch_unwind(std::panic::AssertUnwindSafe(|| {
        match vm.run_expr::<OpaqueValue<RootedThread, Hole>>(name, src) {
            Ok((v, t)) => format!("OK {} : {}", vmkit::walk(v.get_ref(), 40), t),
            Err(e) => match e.emit_string() {
                Ok(s) => format!("ERR {}", s),
                Err(e2) => format!("ERR-UNRENDERABLE {}", e2),
            },
        }
    }));
    match r {
        Ok(s) => s,
        Err(p) => format!("HOSTPANIC {}", vmkit::panic_message(&p)),
    }
}

fn settings(prelude: bool) -> Settings {
    Settings { implicit_prelude: prelude, ..Settings::bare() }
}

/// the program set: (label, source, uses prelude)
pub fn program_set(tier: &str) -> Vec<(String, String, bool)> {
    let quick = tier == "quick";
    let mut out = Vec::new();
    // run time failures whose diagnostics carry source positions (stack traces with line numbers):
    // same function names, the failing call on different lines; first so that they are part of
    // the core used for the histories
    for (i, src) in [
        "let { error } = import! std.prim\nlet id x = x\n\n\nlet f x = id x\nlet g x =\n    let y = f x\n    if y #Int< 10 then\n        error \"boom\"\n    else y\ng 1",
        "let { error } = import! std.prim\nlet g x = error \"boom\"\ng 1",
        "let { error } = import! std.prim\nlet g x =\n    if x #Int< 10 then\n\n\n\n        error \"deep\"\n    else x\nlet h x =\n    let r = g x\n    r #Int+ 1\nh 2",
        "let id x = x\n\n\n\n\n\nlet g x = id x\ng 1",
        "let { error } = import! std.prim\ntype V = | A | C Int V\nlet g v =\n    match v with\n    | C x _ -> x\nlet h _ =\n\n    g A\nh ()",
    ]
    .iter()
    .enumerate()
    {
        out.push((format!("trace{}", i), src.to_string(), false));
    }
    let mut g = Gen::new(Cfg::standard());
    // well typed
    for n in 1..=(if quick { 4 } else { 5 }) {
        for ty in top_types() {
            for t in g.gen(&vec![], &ty, n).iter() {
                out.push(("gen".to_string(), program(Dialect::Bare, t), false));
            }
        }
    }
    let fams = templates::all("quick");
    for (i, (name, t)) in fams.iter().enumerate() {
        if i % (if quick { 23 } else { 5 }) == 0 {
            out.push((name.clone(), program(Dialect::Bare, t), false));
            if i % 3 == 0 {
                out.push((format!("{}+prelude", name), program(Dialect::Prelude, t), true));
            }
        }
    }
    // ill typed: every token mutant of a few programs (rejected ones give diagnostics)
    let bases: Vec<String> = fams
        .iter()
        .enumerate()
        .filter(|(i, _)| i % (if quick { 1201 } else { 301 }) == 0)
        .map(|(_, (_, t))| program(Dialect::Bare, t))
        .collect();
    for b in bases {
        for m in token_mutants(&b) {
            out.push(("mutant".to_string(), m, false));
        }
    }
    // several errors at once, records/variants in messages, implicit resolution errors
    for (i, src) in [
        "let f x = x #Int+ 1 in (f \"a\", f 2.0, g 1)",
        "type T = | A Int | B String in match A 1 with\n| A x -> x\n| B y -> y",
        "let r = { a = 1, b = \"s\", c = { d = 1.0 } } in r.e",
        "{ x = 1, x = 2 }",
        "let f : Int -> String = \\x -> x in f",
        "let { a, b } = { a = 1 } in b",
        "type R a = { v : a, n : Int } in let r : R String = { v = 1, n = \"\" } in r",
        "let x = import! does.not.exist in x",
    ]
    .iter()
    .enumerate()
    {
        out.push((format!("multi{}", i), src.to_string(), false));
    }
    for (i, src) in [
        "1 + \"a\"",
        "show (\\x -> x)",
        "let xs = [1, 2, 3] in xs == [1.0]",
        "let { map } = import! std.functor in map (\\x -> x + 1) (Some \"s\")",
        "type T = { a : Int } in let t : T = { a = 1 } in t < t",
    ]
    .iter()
    .enumerate()
    {
        out.push((format!("implicit{}", i), src.to_string(), true));
    }
    out
}

/// child process: observes every program of the set on a fresh VM, answers one hash per program
pub fn worker(payload: &str) -> String {
    let set = program_set(payload);
    let mut hashes = Vec::with_capacity(set.len());
    for (_, src, prelude) in &set {
        let vm = vmkit::make_vm_with_prim(settings(*prelude));
        hashes.push(format!("{:016x}", fnv(&observe(&vm, "main", src))));
    }
    hashes.join(",")
}

#[derive(Default)]
struct Acc {
    runs: u64,
    diffs: Vec<(String, String, Value)>,
    classes: BTreeMap<String, u64>,
}

pub fn run(tier: &str) -> Report {
    let mut report = Report::new("C16", tier, "exploration");
    let quick = tier == "quick";
    let deadline = par::deadline_for(tier, 45, 2400);
    let set = program_set(tier);
    let set_ref = &set;
    let mut capped = false;
    let mut total_runs = 0u64;

    // (i) fresh VM twice; keeps the reference observation
    let sweep = par::sweep(
        set.len(),
        32,
        Some(deadline),
        |_| (),
        |_, acc: &mut (Acc, Vec<(usize, String)>), i| {
            let (label, src, prelude) = &set_ref[i];
            let a = observe(&vmkit::make_vm_with_prim(settings(*prelude)), "main", src);
            let b2 = observe(&vmkit::make_vm_with_prim(settings(*prelude)), "main", src);
            acc.0.runs += 2;
            *acc.0.classes.entry(a.split(' ').next().unwrap_or("").to_string()).or_insert(0) += 1;
            if a != b2 {
                let c = observe(&vmkit::make_vm_with_prim(settings(*prelude)), "main", src);
                acc.0.diffs.push((
                    format!("fresh-vms-differ:{}:{:016x}", label.split(':').next().unwrap_or(""), fnv(src)),
                    format!("two fresh VMs observe different results for the same source"),
                    json!({"engine": "c16", "kind": "fresh", "source": src, "prelude": prelude, "first": a, "second": b2, "third": c}),
                ));
            }
            acc.1.push((i, a));
        },
    );
    capped |= sweep.capped;
    let mut reference: Vec<Option<String>> = vec![None; set.len()];
    let mut classes: BTreeMap<String, u64> = BTreeMap::new();
    for (acc, refs) in sweep.results {
        total_runs += acc.runs;
        for (k, w, r) in acc.diffs {
            report.violation(k, w, r);
        }
        for (k, v) in acc.classes {
            *classes.entry(k).or_insert(0) += v;
        }
        for (i, o) in refs {
            reference[i] = Some(o);
        }
    }
    report.set("fresh.programs", set.len() as u64);
    report.set("fresh.observation_classes", json!(classes));

    // (ii) histories on one VM: core = programs with distinct labels/outcomes, bare dialect
    let mut core: Vec<usize> = Vec::new();
    {
        let mut seen = std::collections::BTreeSet::new();
        for (i, (label, _, prelude)) in set.iter().enumerate() {
            if *prelude {
                continue;
            }
            let fam = if label == "gen" || label == "mutant" {
                // spread over outcome kinds
                let o = reference[i].clone().unwrap_or_default();
                format!("{}:{}", label, o.chars().take(12).collect::<String>())
            } else {
                label.split(':').next().unwrap_or("").to_string()
            };
            if seen.insert(fam) {
                core.push(i);
            }
        }
    }
    let core_n = if quick { 24 } else { 40 };
    core.truncate(core_n);
    let core_ref = &core;
    let reference_ref = &reference;
    // ordered pairs
    let n = core.len();
    let history = |seq: &[usize], acc: &mut Acc| {
        let vm = vmkit::make_vm_with_prim(settings(false));
        for (pos, &ci) in seq.iter().enumerate() {
            let idx = core_ref[ci];
            let (label, src, _) = &set_ref[idx];
            let o = observe(&vm, "main", src);
            acc.runs += 1;
            if Some(&o) != reference_ref[idx].as_ref() {
                // confirm by replaying the same history
                let vm2 = vmkit::make_vm_with_prim(settings(false));
                let mut o2 = String::new();
                for &cj in &seq[..=pos] {
                    o2 = observe(&vm2, "main", &set_ref[core_ref[cj]].1);
                }
                if Some(&o2) != reference_ref[idx].as_ref() {
                    acc.diffs.push((
                        format!("history-dependent:{}:{:016x}", label.split(':').next().unwrap_or(""), fnv(src)),
                        "a program observed after other programs on the same VM differs from its fresh-VM observation".to_string(),
                        json!({"engine": "c16", "kind": "history", "history": seq[..=pos].iter().map(|&c| set_ref[core_ref[c]].1.clone()).collect::<Vec<_>>(),
                               "fresh": reference_ref[idx], "in_history": o2}),
                    ));
                }
            }
        }
    };
    let sweep = par::sweep(n * n, 4, Some(deadline), |_| (), |_, acc: &mut Acc, k| history(&[k / n, k % n], acc));
    capped |= sweep.capped;
    let mut pair_runs = 0;
    for acc in sweep.results {
        pair_runs += acc.runs;
        for (k, w, r) in acc.diffs {
            report.violation(k, w, r);
        }
    }
    total_runs += pair_runs;
    report.set("history.core_programs", n as u64);
    report.set("history.ordered_pairs", (n * n) as u64);
    // all orders of every 4-subset of an 8-program core
    let m = 8.min(n);
    let mut seqs: Vec<Vec<usize>> = Vec::new();
    for a in 0..m {
        for b2 in 0..m {
            for c in 0..m {
                for d in 0..m {
                    let s = [a, b2, c, d];
                    let mut u = s.to_vec();
                    u.sort();
                    u.dedup();
                    if u.len() == 4 {
                        // spread the 8-core over the whole core list
                        seqs.push(s.iter().map(|x| x * (n / m).max(1)).collect());
                    }
                }
            }
        }
    }
    let seqs_ref = &seqs;
    let sweep = par::sweep(seqs.len(), 4, Some(deadline), |_| (), |_, acc: &mut Acc, k| history(&seqs_ref[k], acc));
    capped |= sweep.capped;
    for acc in sweep.results {
        total_runs += acc.runs;
        for (k, w, r) in acc.diffs {
            report.violation(k, w, r);
        }
    }
    report.set("history.permutations_of_4_subsets", seqs.len() as u64);

    // (iv) fresh OS processes
    let k = if quick { 4 } else { 32 };
    let cases: Vec<String> = (0..k).map(|_| tier.to_string()).collect();
    let iso = isolate::run_isolated("c16", &cases, k.min(par::n_workers()), Duration::from_secs(600), None);
    let mut per_process: Vec<Vec<String>> = Vec::new();
    for o in iso.outcomes {
        match o {
            Some(CaseOutcome::Done(s)) => per_process.push(s.split(',').map(|x| x.to_string()).collect()),
            Some(CaseOutcome::Crashed(st)) => report.machinery(format!("c16 process crashed: {}", st)),
            Some(CaseOutcome::Hung) => report.machinery("c16 process hung"),
            None => {}
        }
    }
    for (i, (label, src, prelude)) in set.iter().enumerate() {
        let here = reference[i].as_ref().map(|o| format!("{:016x}", fnv(o)));
        for (p, hashes) in per_process.iter().enumerate() {
            if hashes.len() != set.len() {
                continue;
            }
            if Some(&hashes[i]) != here.as_ref() && here.is_some() {
                report.violation(
                    format!("processes-differ:{}:{:016x}", label.split(':').next().unwrap_or(""), fnv(src)),
                    format!("process #{} observes a different result than this process for the same source", p),
                    json!({"engine": "c16", "kind": "process", "source": src, "prelude": prelude, "here": reference[i]}),
                );
            }
        }
        total_runs += per_process.len() as u64;
    }
    report.set("processes.count", per_process.len() as u64);

    report.set("evaluations", total_runs);
    report.set("distinct_nontrivial", set.len() as u64);
    report.set("exhaustive", !capped);
    report.set("wall_cap_hit", capped);
    report.set(
        "rule",
        "program set S = all GL-core programs up to size 4 (quick) / 5 + a slice of the feature products in both dialects + every token mutant of a few programs \
         (ill-typed ones give diagnostics) + hand-written multi-error and implicit-resolution-error programs. Enumerated completely: S x 2 fresh VMs; all ordered pairs \
         of the core set and all 24 orders of every 4-subset of an 8-program core as histories on one VM; S in k fresh processes (k is a sample of the hash-seed/ASLR \
         space, not an enumeration). distinct_nontrivial = |S| (distinct sources)",
    );
    report.sample(json!({"source": set[set.len() / 2].1, "observation": reference[set.len() / 2]}));
    report.sample(json!({"source": set[set.len() - 1].1, "observation": reference[set.len() - 1]}));
    report.assume("the per-process dimension (RandomState seeds, heap addresses) cannot be enumerated; k processes are a sample and the claim for that dimension is only 'no difference seen'");
    report
}

pub fn replay(v: &Value) -> Report {
    let mut report = Report::new("C16", "quick", "exploration");
    match v["kind"].as_str() {
        Some("history") => {
            let vm = vmkit::make_vm_with_prim(settings(false));
            let mut last = String::new();
            for s in v["history"].as_array().cloned().unwrap_or_default() {
                last = observe(&vm, "main", s.as_str().unwrap_or(""));
            }
            println!("in history: {}\nfresh:      {}", last, v["fresh"]);
            if Some(last.as_str()) != v["fresh"].as_str() {
                report.violation("replay", "history dependence reproduced", v.clone());
            }
        }
        _ => {
            let src = v["source"].as_str().unwrap_or("");
            let p = v["prelude"].as_bool().unwrap_or(false);
            let a = observe(&vmkit::make_vm_with_prim(settings(p)), "main", src);
            let b2 = observe(&vmkit::make_vm_with_prim(settings(p)), "main", src);
            println!("first:  {}\nsecond: {}\nrecorded here: {}", a, b2, v["here"]);
            if a != b2 || (v["here"].is_string() && v["here"].as_str() != Some(a.as_str())) {
                report.violation("replay", "nondeterminism reproduced", v.clone());
            }
        }
    }
    report
}
