//! C12 — precompiled bytecode behaves like the source it came from.
//! Round trip: every enumerated program is compiled to bytecode (serde_json through the real
//! `compile_to_bytecode`), loaded and run in the same VM and in a fresh VM, and compared with
//! running the source. Faults (in isolated worker processes): EVERY truncation length of the
//! serialised form, and every string of the serialised form replaced by an undefined name.

use crate::engines::c01::fnv;
use crate::isolate::{self, CaseOutcome};
use crate::lang::gen::{top_types, Cfg, Gen};
use crate::lang::templates;
use crate::lang::term::*;
use crate::par;
use crate::report::Report;
use crate::vmkit::{self, ErrKind, Outcome, Settings};
use gluon::compiler_pipeline::{Executable, Precompiled};
use gluon::{RootedThread, ThreadExt};
use serde_json::{json, Value};
use std::collections::BTreeMap;
use std::time::Duration;

pub fn compile(vm: &RootedThread, name: &str, src: &str) -> Result<Vec<u8>, String> {
    let mut buffer = Vec::new();
    {
        let mut ser = serde_json::Serializer::new(&mut buffer);
        let r = futures::executor::block_on(vm.compile_to_bytecode(name, src, &mut ser));
        if let Err(e) = r {
            return Err(match e {
                gluon::either::Either::Left(e) => e.to_string(),
                gluon::either::Either::Right(e) => e.to_string(),
            });
        }
    }
    Ok(buffer)
}

pub fn run_bytecode(vm: &RootedThread, name: &str, bytes: &[u8]) -> Outcome {
    let r = std::panic::catch_unwind(std::panic::AssertUnwindSafe(|| {
        let mut de = serde_json::Deserializer::from_slice(bytes);
        let mut db = vm.get_database();
        let r = futures::executor::block_on(Precompiled(&mut de).run_expr(
            &mut vm.module_compiler(&mut db),
            vm.clone(),
            name,
            "",
            (),
        ));
        match r {
            Ok(v) => Outcome::Ok(vmkit::walk(v.value.get_variant().as_ref(), 40), v.typ.to_string()),
            Err(e) => {
                let (k, m) = vmkit::classify_error(&e);
                Outcome::Err(k, m)
            }
        }
    }));
    match r {
        Ok(o) => o,
        Err(p) => Outcome::Err(ErrKind::HostPanic, vmkit::panic_message(&p)),
    }
}

/// A fresh VM does not know the modules the program imported when it was compiled: bytecode
/// carries no dependencies, so they are imported first (what an embedder shipping bytecode does)
pub fn preload_imports(vm: &RootedThread, src: &str) {
    let mut i = 0;
    for part in src.split("import! ").skip(1) {
        let name: String = part.chars().take_while(|c| c.is_alphanumeric() || *c == '.' || *c == '_').collect();
        if name.is_empty() || name == "vmod" {
            continue;
        }
        i += 1;
        let _ = vmkit::run(vm, &format!("preload{}", i), &format!("let _ = import! {} in ()", name));
    }
}

#[derive(Default)]
struct Acc {
    evaluated: u64,
    nontrivial: u64,
    skipped: u64,
    bytes: u64,
    classes: BTreeMap<String, u64>,
    violations: Vec<(String, String, Value)>,
}

struct W {
    vm: RootedThread,
    uses: usize,
}

fn settings() -> Settings {
    Settings::bare()
}

fn same(a: &Outcome, b: &Outcome) -> bool {
    match (a, b) {
        (Outcome::Ok(x, _), Outcome::Ok(y, _)) => x == y,
        (Outcome::Err(k1, m1), Outcome::Err(k2, m2)) => k1 == k2 && m1 == m2,
        _ => false,
    }
}

fn check_one(w: &mut W, acc: &mut Acc, t: &Term) {
    let src = program(Dialect::Bare, t);
    check_src(w, acc, src, t.interesting());
}

/// Every constant the compiler can embed in a module (ints, floats, bytes, chars, strings at
/// their boundary values) x every position a constant is compiled from (top level, closure body,
/// record field, array literal, argument, pattern literal, nested function, partial application)
pub fn constant_programs() -> Vec<String> {
    let head = "let { Bool } = import! std.types\ntype V = | A | C Int V\n";
    let consts: Vec<(&str, &str)> = vec![
        ("0", "Int"), ("1", "Int"), ("-1", "Int"), ("9223372036854775807", "Int"), ("-9223372036854775808", "Int"), ("255", "Int"), ("4294967296", "Int"),
        ("0.0", "Float"), ("-0.0", "Float"), ("1.5", "Float"), ("-0.25", "Float"), ("-1.0", "Float"), ("1e300", "Float"), ("-1e300", "Float"),
        ("0.1", "Float"), ("123456789.125", "Float"), ("5e-324", "Float"), ("123456789.123456789", "Float"), ("0.30000000000000004", "Float"),
        ("1.7976931348623157e308", "Float"), ("2.2250738585072014e-308", "Float"), ("9007199254740993.0", "Float"), ("3.141592653589793", "Float"),
        ("0b", "Byte"), ("1b", "Byte"), ("255b", "Byte"),
        ("'a'", "Char"), ("'\\n'", "Char"), ("'\\''", "Char"), ("'é'", "Char"), ("'😀'", "Char"),
        ("\"\"", "String"), ("\"a\"", "String"), ("\"a\\nb\"", "String"), ("\"\\\"q\\\\\"", "String"), ("\"é€😀\"", "String"),
        ("r\"raw\\n\"", "String"), ("\"xxxxxxxxxxxxxxxxxxxxxxxxxxxxxxxxxxxxxxxxxxxxxxxxxxxxxxxxxxxxxxxxxxxxxxxxxxxxxxxxxxxxxxxxxxxxxxxxxxxxxxxxxxxxxxxxxxxxxxxxxxxxxxxxxxxxxxxxxxxxxxxxxxxxxxxxxxxxxxxxxxxxxxxxxxxxxxxxxxxxxxxxxxxxxxxxxxxxxxxxxxxxxxxxxxxxxxxxxxxxxxxxxxxxxxxxxxxxxxxxxxxxxxxxxxxxxxxxxx\"", "String"),
    ];
    let mut out = Vec::new();
    for (c, ty) in &consts {
        let positions = vec![
            format!("{}", c),
            format!("let f x = {}\nf ()", c),
            format!("let f x = \\y -> {}\nf () ()", c),
            format!("{{ a = {}, b = [{}, {}] }}", c, c, c),
            format!("let id x = x\nid {}", c),
            format!("let pair a b = (a, b)\nlet p = pair {}\np 1", c),
            format!("rec let f n = if n #Int== 0 then {} else f (n #Int- 1)\nin f 3", c),
            format!("match C 1 A with\n| C _ _ -> {}\n| A -> {}", c, c),
        ];
        for p in positions {
            out.push(format!("{}{}\n// {}", head, p, ty));
        }
        // the constant as a pattern literal (not for floats: gluon has no float patterns)
        if *ty != "Float" {
            out.push(format!("{}let v = {}\nmatch v with\n| {} -> 1\n| _ -> 0\n", head, c, c));
        }
    }
    out
}

fn check_src(w: &mut W, acc: &mut Acc, src: String, interesting: bool) {
    w.uses += 1;
    if w.uses % 1000 == 0 {
        w.vm = vmkit::make_vm_with_prim(settings());
    }
    let from_source = vmkit::run(&w.vm, "main", &src);
    if matches!(from_source, Outcome::Err(ErrKind::Typecheck, _) | Outcome::Err(ErrKind::Parse, _) | Outcome::Err(ErrKind::HostPanic, _)) {
        acc.skipped += 1;
        return;
    }
    let bytes = match compile(&w.vm, "main", &src) {
        Ok(b) => b,
        Err(e) => {
            acc.violations.push((
                format!("compile-to-bytecode-fails:{}", e.lines().next().unwrap_or("").chars().filter(|c| !c.is_ascii_digit()).take(60).collect::<String>()),
                format!("source runs ({:?}) but compile_to_bytecode fails: {}", from_source.class(), e),
                json!({"engine": "c12", "source": src}),
            ));
            return;
        }
    };
    acc.bytes += bytes.len() as u64;
    let same_vm = run_bytecode(&w.vm, "main", &bytes);
    let fresh = vmkit::make_vm_with_prim(settings());
    preload_imports(&fresh, &src);
    let fresh_vm = run_bytecode(&fresh, "main", &bytes);
    // without its dependencies the module refers to globals the VM does not define: an error,
    // never a crash
    if src.contains("import! std.prim") || src.contains("import! std.array") {
        let bare = vmkit::make_vm_with_prim(settings());
        let o = run_bytecode(&bare, "main", &bytes);
        if let Outcome::Err(ErrKind::HostPanic, m) = &o {
            acc.violations.push((
                format!("fault:host-panic:missing-dependency:{}", m.chars().filter(|c| !c.is_ascii_digit()).take(60).collect::<String>()),
                format!("bytecode loaded into a VM that has not loaded the imported modules panics the host: {}", m),
                json!({"engine": "c12", "source": src, "route": "fresh-vm-without-dependencies"}),
            ));
        }
    }
    acc.evaluated += 1;
    if interesting {
        acc.nontrivial += 1;
    }
    *acc.classes.entry(fresh_vm.class()).or_insert(0) += 1;
    for (route, got) in [("same-vm", &same_vm), ("fresh-vm", &fresh_vm)] {
        if !same(&from_source, got) {
            // confirm with everything fresh
            let vm2 = vmkit::make_vm_with_prim(settings());
            let s2 = vmkit::run(&vm2, "main", &src);
            let b2 = compile(&vm2, "main", &src).unwrap_or_default();
            let vm3 = vmkit::make_vm_with_prim(settings());
            preload_imports(&vm3, &src);
            let g2 = if route == "same-vm" { run_bytecode(&vm2, "main", &b2) } else { run_bytecode(&vm3, "main", &b2) };
            if !same(&s2, &g2) {
                acc.violations.push((
                    format!("c12:roundtrip:{}:{:016x}", route, fnv(&src)),
                    format!("source evaluates to {:?} but its bytecode ({}) to {:?}", s2, route, g2),
                    json!({"engine": "c12", "source": src, "route": route, "expected": format!("{:?}", s2), "observed": format!("{:?}", g2)}),
                ));
            }
        }
    }
}

// ---------------------------------------------------------------------------------------------
// faults (child process side)

/// payload: {"source":..., "kind":"truncate"|"undefined", "from":i, "to":j}
pub fn worker(payload: &str) -> String {
    let v: Value = serde_json::from_str(payload).unwrap();
    let src = v["source"].as_str().unwrap();
    let kind = v["kind"].as_str().unwrap();
    let vm = vmkit::make_vm_with_prim(settings());
    let bytes = compile(&vm, "main", src).unwrap();
    let mut bad: Vec<String> = Vec::new();
    let mut n = 0u64;
    let mut loaded_ok = 0u64;
    let canary = "1 #Int+ 2";
    let mut check = |label: String, data: &[u8], bad: &mut Vec<String>| {
        let vm2 = vmkit::make_vm_with_prim(settings());
        preload_imports(&vm2, src);
        let o = run_bytecode(&vm2, "main", data);
        n += 1;
        match &o {
            Outcome::Err(ErrKind::HostPanic, m) => bad.push(format!("{} => host panic: {} @ {}", label, m, vmkit::last_panic_loc())),
            Outcome::Ok(..) => loaded_ok += 1,
            _ => {}
        }
        // the VM must stay usable
        let c = vmkit::run(&vm2, "canary", canary);
        if !matches!(c, Outcome::Ok(vmkit::W::Int(3), _)) {
            bad.push(format!("{} => VM unusable afterwards: canary gives {:?}", label, c));
        }
    };
    match kind {
        "truncate" => {
            let from = v["from"].as_u64().unwrap() as usize;
            let to = (v["to"].as_u64().unwrap() as usize).min(bytes.len());
            for len in from..to {
                let before = bad.len();
                check(format!("truncate@{}", len), &bytes[..len], &mut bad);
                // a strict prefix of a JSON document can never be a complete module
                if bad.len() == before {
                    // nothing
                }
            }
        }
        _ => {
            // every string leaf replaced by an undefined name, one at a time
            let doc: Value = serde_json::from_slice(&bytes).unwrap();
            let mut paths = Vec::new();
            collect_strings(&doc, &mut Vec::new(), &mut paths);
            for (i, p) in paths.iter().enumerate() {
                let mut d = doc.clone();
                if let Some(slot) = at_path(&mut d, p) {
                    let old = slot.as_str().unwrap_or("").to_string();
                    *slot = Value::String(format!("{}_undefined_zz", old));
                    let data = serde_json::to_vec(&d).unwrap();
                    check(format!("undefined#{}({})", i, old), &data, &mut bad);
                }
            }
        }
    }
    json!({"cases": n, "loaded_ok": loaded_ok, "bad": bad, "len": bytes.len()}).to_string()
}

#[derive(Clone)]
enum Step {
    Key(String),
    Idx(usize),
}

fn collect_strings(v: &Value, path: &mut Vec<Step>, out: &mut Vec<Vec<Step>>) {
    match v {
        Value::String(_) => out.push(path.clone()),
        Value::Array(a) => {
            for (i, x) in a.iter().enumerate() {
                path.push(Step::Idx(i));
                collect_strings(x, path, out);
                path.pop();
            }
        }
        Value::Object(o) => {
            for (k, x) in o.iter() {
                path.push(Step::Key(k.clone()));
                collect_strings(x, path, out);
                path.pop();
            }
        }
        _ => {}
    }
}

fn at_path<'a>(v: &'a mut Value, p: &[Step]) -> Option<&'a mut Value> {
    let mut cur = v;
    for s in p {
        cur = match s {
            Step::Key(k) => cur.get_mut(k)?,
            Step::Idx(i) => cur.get_mut(*i)?,
        };
    }
    Some(cur)
}

pub fn run(tier: &str) -> Report {
    let mut report = Report::new("C12", tier, "fault_enumeration");
    let quick = tier == "quick";
    let deadline = par::deadline_for(tier, 45, 3000);
    let size: usize = std::env::var("VERIF_C12_SIZE").ok().and_then(|s| s.parse().ok()).unwrap_or(if quick { 5 } else { 6 });
    // (1) round trips
    let fams = templates::all(tier);
    let sweep = par::stream(
        Some(deadline),
        |emit| {
            let mut g = Gen::new(Cfg::standard());
            'outer: for n in 1..=size {
                for ty in top_types() {
                    let mut go = true;
                    g.produce(&vec![], &ty, n, &mut |t| {
                        if go {
                            go = emit(t);
                        }
                    });
                    if !go {
                        break 'outer;
                    }
                }
            }
            for (i, (_, t)) in fams.iter().enumerate() {
                if i % (if quick { 7 } else { 1 }) == 0 && !emit(t.clone()) {
                    break;
                }
            }
        },
        |_| W { vm: vmkit::make_vm_with_prim(settings()), uses: 0 },
        |w, acc: &mut Acc, t: Term| check_one(w, acc, &t),
    );
    let mut capped = sweep.capped;
    let mut evaluated = 0;
    let mut nontrivial = 0;
    let mut skipped = 0;
    let mut bytes = 0;
    let mut classes: BTreeMap<String, u64> = BTreeMap::new();
    for a in sweep.results {
        evaluated += a.evaluated;
        nontrivial += a.nontrivial;
        skipped += a.skipped;
        bytes += a.bytes;
        for (k, v) in a.classes {
            *classes.entry(k).or_insert(0) += v;
        }
        for (k, w, r) in a.violations {
            report.violation(k, w, r);
        }
    }
    // (1b) constants of every kind in every position
    let consts = constant_programs();
    let consts_ref = &consts;
    let sweep = par::sweep(
        consts.len(),
        8,
        Some(deadline),
        |_| W { vm: vmkit::make_vm_with_prim(settings()), uses: 0 },
        |w, acc: &mut Acc, i| check_src(w, acc, consts_ref[i].clone(), true),
    );
    capped |= sweep.capped;
    for a in sweep.results {
        evaluated += a.evaluated;
        nontrivial += a.nontrivial;
        skipped += a.skipped;
        bytes += a.bytes;
        for (k, v) in a.classes {
            *classes.entry(k).or_insert(0) += v;
        }
        for (k, w, r) in a.violations {
            report.violation(k, w, r);
        }
    }
    report.set("roundtrip.constant_programs", consts.len() as u64);
    report.assume("the bytecode is written and read with serde_json with its `float_roundtrip` feature on: without it serde_json itself reads some float constants back one ULP off (123456789.123456789), which is serde_json's documented trade-off, not gluon's");
    report.set("roundtrip.programs", evaluated);
    report.set("roundtrip.executions", evaluated * 3);
    report.set("roundtrip.skipped_not_accepted", skipped);
    report.set("roundtrip.bytecode_bytes_total", bytes);
    report.set("roundtrip.outcome_classes", json!(classes));

    // (2) faults on a base set: programs with closures, rec groups, records-by-name, variants,
    // strings, arrays (one per template family + small generated ones)
    let mut base: Vec<String> = Vec::new();
    let mut seen_fam = std::collections::BTreeSet::new();
    for (name, t) in templates::all("quick") {
        let fam = name.split(':').next().unwrap_or("").to_string();
        if seen_fam.insert(fam) {
            base.push(program(Dialect::Bare, &t));
        }
    }
    {
        let mut g = Gen::new(Cfg::standard());
        for ty in top_types() {
            let v = g.gen(&vec![], &ty, 4);
            if !v.is_empty() {
                base.push(program(Dialect::Bare, &v[v.len() / 2]));
                if !quick {
                    base.push(program(Dialect::Bare, &v[v.len() / 3]));
                }
            }
        }
    }
    base.push("let { Bool } = import! std.types\nlet s = \"héllo\\n\"\nlet f x y = { s, x, y, z = 1.5, c = 'c', b = 3b }\nf [1, 2] (\\q -> q)\n".to_string());
    let vm = vmkit::make_vm_with_prim(settings());
    let mut cases = Vec::new();
    let chunk = 400;
    for src in &base {
        let len = match compile(&vm, "main", src) {
            Ok(b) => b.len(),
            Err(_) => continue,
        };
        let mut from = 0;
        while from < len {
            cases.push(json!({"source": src, "kind": "truncate", "from": from, "to": from + chunk}).to_string());
            from += chunk;
        }
        cases.push(json!({"source": src, "kind": "undefined"}).to_string());
    }
    let iso = isolate::run_isolated("c12", &cases, par::n_workers(), Duration::from_secs(120), Some(deadline));
    capped |= iso.capped;
    let mut fault_cases = 0u64;
    let mut loaded_ok = 0u64;
    for (i, o) in iso.outcomes.iter().enumerate() {
        let case: Value = serde_json::from_str(&cases[i]).unwrap();
        match o {
            None => {}
            Some(CaseOutcome::Done(res)) => {
                let r: Value = serde_json::from_str(res).unwrap_or(Value::Null);
                fault_cases += r["cases"].as_u64().unwrap_or(0);
                loaded_ok += r["loaded_ok"].as_u64().unwrap_or(0);
                for b in r["bad"].as_array().cloned().unwrap_or_default() {
                    let text = b.as_str().unwrap_or("").to_string();
                    let kind = if text.contains("host panic") { "fault:host-panic" } else { "fault:vm-unusable" };
                    let detail: String = text.split("=> ").nth(1).unwrap_or("").chars().filter(|c| !c.is_ascii_digit()).take(80).collect();
                    report.violation(format!("{}:{}", kind, detail), text, case.clone());
                }
            }
            Some(CaseOutcome::Crashed(st)) => {
                report.violation(
                    format!("fault:process-crash:{}", case["kind"].as_str().unwrap_or("")),
                    format!("worker process died while loading faulty bytecode: {}", st),
                    case.clone(),
                );
            }
            Some(CaseOutcome::Hung) => {
                report.violation(format!("fault:hang:{}", case["kind"].as_str().unwrap_or("")), "loading faulty bytecode did not return within 120 s", case.clone());
            }
        }
    }
    report.set("faults.base_programs", base.len() as u64);
    report.set("faults.cases", fault_cases);
    report.set("faults.corrupted_modules_that_still_loaded_and_ran", loaded_ok);
    report.set("faults.worker_restarts", iso.restarts as u64);
    report.set("evaluations", evaluated * 3 + fault_cases);
    report.set("distinct_nontrivial", nontrivial + fault_cases);
    report.set("exhaustive", !capped);
    report.set("wall_cap_hit", capped);
    report.set(
        "rule",
        "round trip: every GL-core program up to the size bound and the feature products, source vs bytecode in the same VM vs bytecode in a fresh VM; \
         faults: for each base program EVERY truncation length 0..len of the serialised module and EVERY string leaf of the serialised JSON replaced by an \
         undefined name, loaded in a fresh VM inside a worker process, followed by a canary evaluation. non-trivial round trip = program with calls/matches/projections; \
         every fault case is distinct by construction (distinct length / distinct leaf)",
    );
    report.sample(json!({"roundtrip_source": base[0]}));
    report.sample(json!({"fault_case": serde_json::from_str::<Value>(&cases[0]).unwrap()}));
    report.assume("only serde_json serialisation is exercised (bincode is not)");
    report.assume("a corrupted module that still deserialises may run and return anything; only panics, crashes, hangs and an unusable VM are violations, as the property only promises an error for truncation and undefined references");
    report
}

pub fn replay(v: &Value) -> Report {
    let mut report = Report::new("C12", "quick", "fault_enumeration");
    if v.get("kind").is_some() {
        let r = worker(&v.to_string());
        println!("{}", r);
        let r: Value = serde_json::from_str(&r).unwrap();
        if r["bad"].as_array().map(|a| !a.is_empty()).unwrap_or(false) {
            report.violation("replay", "fault reproduced", v.clone());
        }
    } else {
        let src = v["source"].as_str().unwrap_or("");
        let vm = vmkit::make_vm_with_prim(settings());
        let s = vmkit::run(&vm, "main", src);
        let b = compile(&vm, "main", src);
        println!("source: {:?}", s);
        match b {
            Ok(b) => {
                let fresh = vmkit::make_vm_with_prim(settings());
                if v["route"].as_str() != Some("fresh-vm-without-dependencies") {
                    preload_imports(&fresh, src);
                }
                let g = run_bytecode(&fresh, "main", &b);
                println!("bytecode (fresh vm): {:?}", g);
                if v["route"].as_str() == Some("fresh-vm-without-dependencies") {
                    if matches!(g, Outcome::Err(ErrKind::HostPanic, _)) {
                        report.violation("replay", "host panic on missing dependency", v.clone());
                    }
                } else if !same(&s, &g) {
                    report.violation("replay", "round trip differs", v.clone());
                }
            }
            Err(e) => {
                println!("compile_to_bytecode failed: {}", e);
                report.violation("replay", "compile fails", v.clone());
            }
        }
    }
    report
}
