//! C08 — parsing follows the documented grammar, layout and fixity rules.
//!
//! Bounded-exhaustive exploration driving gluon's real parser:
//!  (1) every operator chain of 2..=k operands over two fixity tables (declared with `#[infix]` and
//!      built in); oracle = brute force over all binary trees (`reference_grouping`); gluon observed
//!      through `compiler_pipeline` up to `reparse_infix` and, for declared operators, by running
//!      the program (the operators build a tree value);
//!  (2) every expression AST up to a size bound (`syntax::ExGen`), every literal value x spelling x
//!      context, and every composition of one-hole contexts around each construct, each printed
//!      in many concrete styles (`syntax::Style`), parsed with `parse_partial_expr` +
//!      `reparse_infix`, converted back (`syntax::Conv`) and compared; spans are checked for sanity,
//!      against the printer's byte ranges, and by re-parsing the text of every one-line node.
//!
//! Environment knobs (exploration only): VERIF_C08_SIZE / _SIZE_BASE / _NEST / _OPERANDS /
//! _OPERANDS10 (bounds), VERIF_C08_STYLES=a,b (style filter), VERIF_C08_VARIANTS=0,
//! VERIF_C08_DUMP=1 (print every failing class), VERIF_C08_PROBE=file (parse snippets separated
//! by `====` lines and print gluon's tree and spans), VERIF_C08_VERBOSE=1 with --replay.
use crate::par;
use crate::report::Report;
use crate::syntax::*;
use serde_json::{json, Value};
use std::collections::BTreeMap;

pub fn fnv(s: &str) -> u64 {
    let mut h: u64 = 0xcbf29ce484222325;
    for b in s.bytes() {
        h ^= b as u64;
        h = h.wrapping_mul(0x100000001b3);
    }
    h
}

pub fn probe(src: &str) {
    println!("--- source:\n{}", src);
    match parse(src) {
        Parsed::Ok(e, n, docs, attrs) => {
            println!("AST: {:?} (doc comments {}, attributes {})", e, docs, attrs);
            fn dump(n: &SpanNode, src: &str, d: usize) {
                let text = if n.lo >= 0 && (n.hi as usize) <= src.len() && n.lo <= n.hi && src.is_char_boundary(n.lo as usize) && src.is_char_boundary(n.hi as usize) { format!("{:?}", &src[n.lo as usize..n.hi as usize]) } else { "<out of range>".into() };
                println!("{}{} [{},{}) {}", "  ".repeat(d), n.kind, n.lo, n.hi, text);
                for k in &n.kids { dump(k, src, d + 1) }
            }
            dump(&n, src, 0);
        }
        other => println!("{:?}", other),
    }
}

// ---------------------------------------------------------------------------------------------
// part 1: operator chains

#[derive(Clone, Copy, Debug)]
pub struct Op {
    pub name: &'static str,
    pub prec: i32,
    pub left: bool,
    /// declared in the program with `#[infix(..)]` (otherwise built in: parser/src/infix.rs OpTable::get)
    pub user: bool,
    pub code: i64,
}

/// Four declared operators covering {4, 6} x {left, right} (so `<~`/`~>` and `<+`/`+>` are pairs of
/// equal precedence and opposite associativity) and four built-in ones below / between / equal
/// to / above them (`#Int==` = 4 left, `#Int+` = 6 left, `#Int*` = 7 left, `&&` = 3 right).
pub const OPS8: &[Op] = &[
    Op { name: "<~", prec: 4, left: true, user: true, code: 1 },
    Op { name: "~>", prec: 4, left: false, user: true, code: 2 },
    Op { name: "<+", prec: 6, left: true, user: true, code: 3 },
    Op { name: "+>", prec: 6, left: false, user: true, code: 4 },
    Op { name: "#Int+", prec: 6, left: true, user: false, code: 0 },
    Op { name: "#Int*", prec: 7, left: true, user: false, code: 0 },
    Op { name: "&&", prec: 3, left: false, user: false, code: 0 },
    Op { name: "#Int==", prec: 4, left: true, user: false, code: 0 },
];

/// A second table: declared operators at the extreme precedences 0 and 9 and one declared at
/// precedence 5 between the others, with `||` (2 right) and `#Int<` (4 left) built in.
pub const OPS10: &[Op] = &[
    Op { name: "<~", prec: 4, left: true, user: true, code: 1 },
    Op { name: "~>", prec: 4, left: false, user: true, code: 2 },
    Op { name: "<+", prec: 6, left: true, user: true, code: 3 },
    Op { name: "+>", prec: 6, left: false, user: true, code: 4 },
    Op { name: "$$", prec: 0, left: false, user: true, code: 5 },
    Op { name: "^^", prec: 9, left: false, user: true, code: 6 },
    Op { name: "<*>", prec: 5, left: true, user: true, code: 7 },
    Op { name: "%%", prec: 9, left: true, user: true, code: 8 },
    Op { name: "||", prec: 2, left: false, user: false, code: 0 },
    Op { name: "#Int<", prec: 4, left: true, user: false, code: 0 },
];

#[derive(Clone, Debug, PartialEq, Eq)]
pub enum Tree {
    Leaf(usize),
    Node(usize, Box<Tree>, Box<Tree>),
}

impl Tree {
    pub fn show(&self, chain: &[usize], ops: &[Op]) -> String {
        match self {
            Tree::Leaf(i) => i.to_string(),
            Tree::Node(k, l, r) => format!("({} {} {})", l.show(chain, ops), ops[chain[*k]].name, r.show(chain, ops)),
        }
    }
}

/// every binary tree over operands lo..=hi (operator k sits between operands k and k+1)
fn all_trees(lo: usize, hi: usize) -> Vec<Tree> {
    if lo == hi {
        return vec![Tree::Leaf(lo)];
    }
    let mut out = Vec::new();
    for k in lo..hi {
        for l in all_trees(lo, k) {
            for r in all_trees(k + 1, hi) {
                out.push(Tree::Node(k, Box::new(l.clone()), Box::new(r)));
            }
        }
    }
    out
}

/// is every parent/child pair of operators grouped the way precedence and associativity dictate?
fn consistent(t: &Tree, chain: &[usize], ops: &[Op]) -> bool {
    match t {
        Tree::Leaf(_) => true,
        Tree::Node(k, l, r) => {
            let p = ops[chain[*k]];
            let ok_l = match &**l {
                Tree::Node(j, ..) => {
                    let q = ops[chain[*j]];
                    q.prec > p.prec || (q.prec == p.prec && q.left && p.left)
                }
                _ => true,
            };
            let ok_r = match &**r {
                Tree::Node(j, ..) => {
                    let q = ops[chain[*j]];
                    q.prec > p.prec || (q.prec == p.prec && !q.left && !p.left)
                }
                _ => true,
            };
            ok_l && ok_r && consistent(l, chain, ops) && consistent(r, chain, ops)
        }
    }
}

/// reference grouping: `Some(tree)` if exactly one tree is consistent, `None` if none is
pub fn reference_grouping(chain: &[usize], ops: &[Op], trees: &[Tree]) -> Result<Option<Tree>, String> {
    let ok: Vec<&Tree> = trees.iter().filter(|t| consistent(t, chain, ops)).collect();
    match ok.len() {
        0 => Ok(None),
        1 => Ok(Some(ok[0].clone())),
        n => Err(format!("{} consistent groupings", n)),
    }
}

pub fn chain_source(chain: &[usize], ops: &[Op]) -> String {
    let mut s = String::from("type T = | N Int | B Int T T\n");
    for o in ops.iter().filter(|o| o.user) {
        s.push_str(&format!("#[infix({}, {})]\nlet ({}) x y : T -> T -> T = B {} x y\n", if o.left { "left" } else { "right" }, o.prec, o.name, o.code));
    }
    for (i, k) in chain.iter().enumerate() {
        s.push_str(&format!("N {} {} ", i, ops[*k].name));
    }
    s.push_str(&format!("N {}", chain.len()));
    s
}

pub struct ChainWorker {
    vm: gluon::RootedThread,
    used: usize,
}

#[derive(Debug, Clone, PartialEq)]
pub enum Grouping {
    Tree(String),
    Conflict(String),
    Other(String),
}

impl ChainWorker {
    pub fn new() -> ChainWorker {
        ChainWorker { vm: crate::vmkit::make_vm(crate::vmkit::Settings::bare()), used: 0 }
    }
    fn refresh(&mut self) {
        self.used += 1;
        if self.used > 1500 {
            *self = ChainWorker::new();
        }
    }

    /// gluon's grouping read off the tree that `reparse_infix` leaves behind in the compiler pipeline
    pub fn ast_grouping(&mut self, src: &str, ops: &[Op]) -> Grouping {
        use gluon::compiler_pipeline::InfixReparseable;
        use gluon::ThreadExt;
        self.refresh();
        let vm = self.vm.clone();
        let r = std::panic::catch_unwind(std::panic::AssertUnwindSafe(|| {
            let mut db = vm.get_database();
            let mut compiler = vm.module_compiler(&mut db);
            futures::executor::block_on(src.reparse_infix(&mut compiler, &vm, "chain", src))
        }));
        match r {
            Err(p) => Grouping::Other(format!("panic: {}", crate::vmkit::panic_message(&p))),
            Ok(Err(salvage)) => {
                let msg = salvage.error.to_string();
                if msg.contains("Conflicting fixities at the same precedence level") {
                    Grouping::Conflict(crate::vmkit::first_line(msg.lines().find(|l| l.contains("Conflicting")).unwrap_or("")))
                } else {
                    Grouping::Other(crate::vmkit::first_line(&msg))
                }
            }
            Ok(Ok(reparsed)) => {
                let mut e = reparsed.expr.expr();
                loop {
                    match &e.value {
                        gluon::base::ast::Expr::LetBindings(_, body) | gluon::base::ast::Expr::TypeBindings(_, body) => e = body,
                        _ => break,
                    }
                }
                fn show(e: &gluon::base::ast::SpannedExpr<gluon::base::symbol::Symbol>, ops: &[Op]) -> String {
                    use gluon::base::ast::{Expr, Literal};
                    match &e.value {
                        Expr::Infix { lhs, op, rhs, .. } => {
                            let name: &str = op.value.name.as_ref();
                            format!("({} {} {})", show(lhs, ops), name, show(rhs, ops))
                        }
                        Expr::App { args, .. } if args.len() == 1 => match &args[0].value {
                            Expr::Literal(Literal::Int(i)) => i.to_string(),
                            _ => "?".into(),
                        },
                        Expr::Tuple { elems, .. } if elems.len() == 1 => show(&elems[0], ops),
                        _ => "?".into(),
                    }
                }
                Grouping::Tree(show(e, ops))
            }
        }
    }

    /// gluon's grouping observed end to end: the declared operators build a tree value
    pub fn eval_grouping(&mut self, src: &str, ops: &[Op]) -> Grouping {
        use crate::vmkit::{ErrKind, Outcome, W};
        self.refresh();
        match crate::vmkit::run(&self.vm, "chain", src) {
            Outcome::Ok(w, _) => {
                fn show(w: &W, ops: &[Op]) -> String {
                    match w {
                        W::Data(0, fs) if fs.len() == 1 => match &fs[0] {
                            W::Int(i) => i.to_string(),
                            _ => "?".into(),
                        },
                        W::Data(1, fs) if fs.len() == 3 => {
                            let name = match &fs[0] {
                                W::Int(c) => ops.iter().find(|o| o.user && o.code == *c).map(|o| o.name).unwrap_or("?"),
                                _ => "?",
                            };
                            format!("({} {} {})", show(&fs[1], ops), name, show(&fs[2], ops))
                        }
                        _ => "?".into(),
                    }
                }
                Grouping::Tree(show(&w, ops))
            }
            Outcome::Err(ErrKind::Parse, m) if m.contains("Conflicting fixities at the same precedence level") => Grouping::Conflict(m),
            Outcome::Err(k, m) => Grouping::Other(format!("{:?}: {}", k, m)),
        }
    }
}

#[derive(Default)]
pub struct ChainAcc {
    chains: u64,
    conflicts_expected: u64,
    conflicts_seen: u64,
    unique_expected: u64,
    ast_checked: u64,
    eval_checked: u64,
    nontrivial: u64,
    oracle_errors: Vec<String>,
    /// (key, what, replay)
    violations: Vec<(String, String, Value)>,
    samples: Vec<Value>,
}

fn chain_of_index(mut idx: usize, n_ops: usize, len: usize) -> Vec<usize> {
    let mut c = vec![0; len];
    for k in (0..len).rev() {
        c[k] = idx % n_ops;
        idx /= n_ops;
    }
    c
}

pub fn check_chain(w: &mut ChainWorker, acc: &mut ChainAcc, table: &str, ops: &[Op], chain: &[usize], trees: &[Tree]) {
    acc.chains += 1;
    if chain.len() >= 2 {
        acc.nontrivial += 1;
    }
    let expected = match reference_grouping(chain, ops, trees) {
        Ok(e) => e,
        Err(m) => {
            acc.oracle_errors.push(format!("{:?}: {}", chain, m));
            return;
        }
    };
    let src = chain_source(chain, ops);
    let text = src.lines().last().unwrap_or("").to_string();
    let expected_g = match &expected {
        Some(t) => {
            acc.unique_expected += 1;
            Grouping::Tree(t.show(chain, ops))
        }
        None => {
            acc.conflicts_expected += 1;
            Grouping::Conflict(String::new())
        }
    };
    let agrees = |g: &Grouping| match (&expected_g, g) {
        (Grouping::Tree(a), Grouping::Tree(b)) => a == b,
        (Grouping::Conflict(_), Grouping::Conflict(_)) => true,
        _ => false,
    };
    let all_user = chain.iter().all(|k| ops[*k].user);
    let mut observed = vec![("reparse_infix", w.ast_grouping(&src, ops))];
    acc.ast_checked += 1;
    if all_user {
        observed.push(("evaluation", w.eval_grouping(&src, ops)));
        acc.eval_checked += 1;
    }
    if let Grouping::Conflict(_) = observed[0].1 {
        acc.conflicts_seen += 1;
    }
    if acc.samples.len() < 3 && chain.len() >= 3 && (acc.chains % 1009 == 7) {
        acc.samples.push(json!({"chain": text, "table": table, "reference": format!("{:?}", expected_g), "gluon": format!("{:?}", observed[0].1)}));
    }
    for (how, g) in observed {
        if agrees(&g) {
            continue;
        }
        // reproduce on a fresh VM
        let mut fresh = ChainWorker::new();
        let again = if how == "evaluation" { fresh.eval_grouping(&src, ops) } else { fresh.ast_grouping(&src, ops) };
        if again != g {
            acc.violations.push((format!("chain-nondeterministic:{}:{}", table, text), format!("{} gave {:?} then {:?}", how, g, again), json!({"engine": "chain", "table": table, "chain": chain, "how": how})));
            continue;
        }
        let kind = match (&expected_g, &g) {
            (Grouping::Conflict(_), Grouping::Tree(_)) => "conflict-not-reported",
            (Grouping::Tree(_), Grouping::Conflict(_)) => "spurious-conflict",
            (Grouping::Tree(_), Grouping::Tree(_)) => "wrong-grouping",
            _ => "unexpected-outcome",
        };
        acc.violations.push((
            format!("chain:{}:{}:{}", kind, table, text),
            format!("`{}` ({}): reference grouping {:?}, gluon ({}) {:?}", text, ops_legend(chain, ops), expected_g, how, g),
            json!({"engine": "chain", "table": table, "chain": chain, "how": how}),
        ));
    }
}

/// Fixity declarations are scoped like the bindings they annotate: an inner declaration of the
/// same operator shadows the outer one inside its scope only. All (outer, inner) fixity pairs
/// over {4, 6} x {left, right}, two chains each, observed by evaluation.
pub fn run_scoping(report: &mut Report) -> u64 {
    use crate::vmkit::{Outcome, W};
    let fix = [(4, true), (4, false), (6, true), (6, false)];
    let mut n = 0u64;
    fn show(w: &W) -> String {
        match w {
            W::Data(0, fs) if fs.len() == 1 => match &fs[0] {
                W::Int(i) => i.to_string(),
                _ => "?".into(),
            },
            W::Data(1, fs) if fs.len() == 3 => {
                let name = match &fs[0] {
                    W::Int(1) => "<~outer",
                    W::Int(2) => "<~inner",
                    W::Int(7) => "<*>",
                    _ => "?",
                };
                format!("({} {} {})", show(&fs[1]), name, show(&fs[2]))
            }
            _ => "?".into(),
        }
    }
    for (po, lo) in fix {
        for (pi, li) in fix {
            for second_is_other in [false, true] {
                let decl = |p: i32, l: bool, code: i64| format!("#[infix({}, {})]\nlet (<~) x y : T -> T -> T = B {} x y", if l { "left" } else { "right" }, p, code);
                let chain = if second_is_other { "N 0 <~ N 1 <*> N 2" } else { "N 0 <~ N 1 <~ N 2" };
                let src = format!(
                    "type T = | N Int | B Int T T\n#[infix(left, 5)]\nlet (<*>) x y : T -> T -> T = B 7 x y\n{}\nlet r1 = {}\nlet r2 =\n    {}\n    {}\nlet r3 = {}\n(r1, r2, r3)",
                    decl(po, lo, 1),
                    chain,
                    decl(pi, li, 2).replace('\n', "\n    "),
                    chain,
                    chain
                );
                let expect = |p: i32, l: bool, who: &str| -> String {
                    if second_is_other {
                        // `<*>` is infixl 5
                        if p > 5 { format!("((0 <~{} 1) <*> 2)", who) } else { format!("(0 <~{} (1 <*> 2))", who) }
                    } else if l {
                        format!("((0 <~{w} 1) <~{w} 2)", w = who)
                    } else {
                        format!("(0 <~{w} (1 <~{w} 2))", w = who)
                    }
                };
                let want = vec![expect(po, lo, "outer"), expect(pi, li, "inner"), expect(po, lo, "outer")];
                let run = || match crate::vmkit::run_fresh(crate::vmkit::Settings::bare(), &src) {
                    Outcome::Ok(W::Data(_, fs), _) if fs.len() == 3 => fs.iter().map(show).collect::<Vec<_>>(),
                    other => vec![format!("{:?}", other)],
                };
                let got = run();
                n += 1;
                if got != want && run() == got {
                    report.violation(
                        format!("chain:scoping:outer-{}{}-inner-{}{}-{}", if lo { "l" } else { "r" }, po, if li { "l" } else { "r" }, pi, if second_is_other { "mixed" } else { "same" }),
                        format!("fixity of a shadowed operator: expected (r1, r2, r3) = {:?}, gluon evaluates to {:?}; program:\n{}", want, got, src),
                        json!({"engine": "scoping", "source": src, "expected": want}),
                    );
                }
            }
        }
    }
    report.set("chains.scoping_programs", n);
    n
}

fn ops_legend(chain: &[usize], ops: &[Op]) -> String {
    let mut seen = std::collections::BTreeSet::new();
    let mut v = Vec::new();
    for k in chain {
        if seen.insert(*k) {
            let o = ops[*k];
            v.push(format!("{} = infix{} {}", o.name, if o.left { "l" } else { "r" }, o.prec));
        }
    }
    v.join(", ")
}

pub fn table_by_name(name: &str) -> &'static [Op] {
    if name == "ops10" { OPS10 } else { OPS8 }
}

pub fn run_chains(report: &mut Report, table: &'static str, max_operands: usize, deadline: std::time::Instant) -> (u64, u64, bool) {
    let ops = table_by_name(table);
    let mut total = 0u64;
    let mut nontrivial = 0u64;
    let mut capped = false;
    let mut acc_all = ChainAcc::default();
    for operands in 2..=max_operands {
        let len = operands - 1;
        let n = ops.len().pow(len as u32);
        let trees = all_trees(0, len);
        let trees_ref = &trees;
        let sweep = par::sweep(n, 64, Some(deadline), |_| ChainWorker::new(), |w, acc: &mut ChainAcc, i| {
            let chain = chain_of_index(i, ops.len(), len);
            check_chain(w, acc, table, ops, &chain, trees_ref);
        });
        if sweep.capped {
            capped = true;
        }
        for a in sweep.results {
            acc_all.chains += a.chains;
            acc_all.conflicts_expected += a.conflicts_expected;
            acc_all.conflicts_seen += a.conflicts_seen;
            acc_all.unique_expected += a.unique_expected;
            acc_all.ast_checked += a.ast_checked;
            acc_all.eval_checked += a.eval_checked;
            acc_all.nontrivial += a.nontrivial;
            acc_all.oracle_errors.extend(a.oracle_errors);
            acc_all.violations.extend(a.violations);
            acc_all.samples.extend(a.samples);
        }
        report.set(&format!("chains.{}.operands{}", table, operands), n as u64);
        if capped {
            break;
        }
    }
    total += acc_all.chains;
    nontrivial += acc_all.nontrivial;
    report.set(&format!("chains.{}.enumerated", table), acc_all.chains);
    report.set(&format!("chains.{}.reference_unique_grouping", table), acc_all.unique_expected);
    report.set(&format!("chains.{}.conflicts_expected", table), acc_all.conflicts_expected);
    report.set(&format!("chains.{}.conflicts_reported_by_gluon", table), acc_all.conflicts_seen);
    report.set(&format!("chains.{}.observed_via_reparse_infix", table), acc_all.ast_checked);
    report.set(&format!("chains.{}.observed_via_evaluation", table), acc_all.eval_checked);
    for m in acc_all.oracle_errors.into_iter().take(3) {
        report.machinery(format!("reference grouping not unique: {}", m));
    }
    for s in acc_all.samples.into_iter().take(3) {
        report.sample(s);
    }
    acc_all.violations.sort_by(|a, b| (a.0.len(), &a.0).cmp(&(b.0.len(), &b.0)));
    for (k, what, replay) in acc_all.violations {
        report.violation(k, what, replay);
    }
    (total, nontrivial, capped)
}

// ---------------------------------------------------------------------------------------------
// part 2: AST round trip

pub fn base_styles(tier: &str) -> Vec<Style> {
    use InStyle::*;
    use Inline::*;
    let mut v = vec![
        Style::base("oneline", Always, 1, Implicit, false, true),
        Style::base("block1", Compact, 1, Implicit, false, false),
        Style::base("block2", Compact, 2, Implicit, true, true),
        Style::base("block4", Compact, 4, Implicit, false, false),
        Style::base("expanded2", Never, 2, Implicit, false, false),
        Style::base("expanded4", Never, 4, Implicit, true, true),
        Style::base("in-own-line2", Compact, 2, OwnLine, false, false),
        Style::base("in-with-body4", Compact, 4, WithBody, true, false),
        Style::base("block2-doc", Compact, 2, Implicit, false, false).with_meta(1).with_else_if(),
        Style::base("expanded4-doc-attr", Never, 4, Implicit, true, true).with_meta(3).with_else_if().with_base_own_line(),
    ];
    if tier != "quick" {
        v.push(Style::base("expanded1", Never, 1, Implicit, false, false));
        v.push(Style::base("in-own-line4x", Never, 4, OwnLine, true, true));
        v.push(Style::base("in-with-body1x", Never, 1, WithBody, false, false));
        v.push(Style::base("block1-attr", Compact, 1, OwnLine, true, false).with_meta(2).with_else_if());
        v.push(Style::base("block2-crlf", Compact, 2, Implicit, false, false).with_crlf());
        v.push(Style::base("expanded2-args", Never, 2, Implicit, false, true).with_args_own_line().with_base_own_line());
        v.push(Style::base("block4-args", Compact, 4, Implicit, true, false).with_args_own_line().with_else_if());
    }
    v
}

fn style_by_name(name: &str) -> Option<Style> {
    base_styles("thorough").into_iter().find(|s| s.name == name)
}

fn ins_name(i: Ins) -> &'static str {
    match i {
        Ins::LineComment => "line-comment",
        Ins::BlockComment => "block-comment",
        Ins::BlankLine => "blank-line",
        Ins::OwnLineComment => "own-line-comment",
    }
}

fn ins_by_name(n: &str) -> Option<Ins> {
    [Ins::LineComment, Ins::BlockComment, Ins::BlankLine, Ins::OwnLineComment].into_iter().find(|i| ins_name(*i) == n)
}

fn style_label(st: &Style) -> String {
    let mut l = st.name.to_string();
    if st.redundant_paren_expr.is_some() {
        l.push_str("+paren");
    }
    if st.redundant_paren_pat.is_some() {
        l.push_str("+paren-pattern");
    }
    if let Some((_, i)) = st.insert {
        l.push('+');
        l.push_str(ins_name(i));
    }
    l
}

fn style_json(st: &Style, alt: &Option<(Lit, String)>) -> Value {
    json!({
        "base": st.name,
        "paren_expr": st.redundant_paren_expr,
        "paren_pattern": st.redundant_paren_pat,
        "insert": st.insert.map(|(k, i)| json!([k, ins_name(i)])),
        "literal_spelling": alt.as_ref().map(|(l, s)| json!([serde_json::to_value(l).unwrap(), s])),
    })
}

fn style_from_json(v: &Value) -> Option<(Style, Option<(Lit, String)>)> {
    let mut st = style_by_name(v["base"].as_str()?)?;
    st.redundant_paren_expr = v["paren_expr"].as_u64().map(|x| x as usize);
    st.redundant_paren_pat = v["paren_pattern"].as_u64().map(|x| x as usize);
    if let Some(a) = v["insert"].as_array() {
        st.insert = Some((a[0].as_u64()? as usize, ins_by_name(a[1].as_str()?)?));
    }
    let alt = match v["literal_spelling"].as_array() {
        Some(a) => Some((serde_json::from_value(a[0].clone()).ok()?, a[1].as_str()?.to_string())),
        None => None,
    };
    Some((st, alt))
}

#[derive(Clone, Debug)]
pub struct Failure {
    pub class: String,
    pub detail: String,
}

fn strip_known(s: &str) -> String {
    s.replace(COMMENT_BLOCK, "").replace(COMMENT_LINE, "").replace(META_DOC, "").replace(META_ATTR, "")
}

fn only_trivia(s: &str) -> bool {
    strip_known(s).chars().all(|c| c == ' ' || c == '\n' || c == '\r' || c == '(' || c == ')')
}

/// span sanity on the whole tree; returns (class, detail) of the first problem
fn span_sanity(n: &SpanNode, src: &str, parent: Option<&SpanNode>) -> Option<(String, String)> {
    let len = src.len() as i64;
    if n.lo < 0 || n.hi > len || n.lo > n.hi {
        return Some((format!("span-outside-source:{}", n.kind), format!("{} span [{},{}) not within source of length {}", n.kind, n.lo, n.hi, len)));
    }
    if !src.is_char_boundary(n.lo as usize) || !src.is_char_boundary(n.hi as usize) {
        return Some((format!("span-not-on-char-boundary:{}", n.kind), format!("{} span [{},{})", n.kind, n.lo, n.hi)));
    }
    if let Some(p) = parent {
        if n.lo < p.lo || n.hi > p.hi {
            return Some((
                format!("span-child-outside-parent:{}-in-{}", n.kind, p.kind),
                format!("{} [{},{}) not inside its parent {} [{},{})", n.kind, n.lo, n.hi, p.kind, p.lo, p.hi),
            ));
        }
    }
    let mut kids: Vec<&SpanNode> = n.kids.iter().collect();
    // siblings in conversion order are in source order except record type fields, which gluon
    // keeps in a separate list: compare after sorting by start
    let sorted_by_conv = kids.windows(2).all(|w| w[0].lo <= w[1].lo);
    if !sorted_by_conv && !n.kids.iter().any(|k| k.kind == "field-name") {
        return Some((format!("span-siblings-unordered:in-{}", n.kind), format!("children of {} [{},{}) not in source order", n.kind, n.lo, n.hi)));
    }
    kids.sort_by_key(|k| (k.lo, k.hi));
    for w in kids.windows(2) {
        if w[0].hi > w[1].lo {
            return Some((
                format!("span-siblings-overlap:{}-{}", w[0].kind, w[1].kind),
                format!("{} [{},{}) overlaps {} [{},{})", w[0].kind, w[0].lo, w[0].hi, w[1].kind, w[1].lo, w[1].hi),
            ));
        }
    }
    for k in &n.kids {
        if let Some(f) = span_sanity(k, src, Some(n)) {
            return Some(f);
        }
    }
    None
}

fn name_spans(n: &SpanNode, src: &str, out: &mut Vec<(String, String)>) {
    if let Some(name) = &n.name {
        let text = &src[n.lo as usize..n.hi as usize];
        let ok = text == name || (text.starts_with('(') && text.ends_with(')') && strip_known(&text[1..text.len() - 1]).trim() == name);
        if !ok {
            let class = if n.kind == "operator" && name.starts_with('#') { "name-span:operator-with-#-prefix".to_string() } else { format!("name-span:{}", n.kind) };
            out.push((class, format!("{} `{}` has span [{},{}) = {:?}", n.kind, name, n.lo, n.hi, text)));
        }
    }
    for k in &n.kids {
        name_spans(k, src, out);
    }
}

fn collect_exprs<'a>(n: &'a SpanNode, all: &mut Vec<&'a SpanNode>) {
    if n.expr.is_some() {
        all.push(n);
    }
    for k in &n.kids {
        collect_exprs(k, all);
    }
}

#[derive(Default, Clone)]
pub struct Stats {
    pub parses: u64,
    pub subspan_reparses: u64,
    pub span_nodes: u64,
    pub multiline: u64,
}

/// All checks on one (AST, style) pair. `None` = the requested variant does not apply to this AST.
pub fn check_case(ast: &Ex, st: &Style, stats: &mut Stats, alt: &dyn Fn(&Lit) -> Option<String>) -> (Option<Printed>, Vec<Failure>) {
    let printed = print_with(ast, st, alt);
    if (st.redundant_paren_expr.is_some() || st.redundant_paren_pat.is_some() || st.insert.is_some()) && !printed.applied {
        return (None, vec![]);
    }
    let src = &printed.src;
    let mut fails = Vec::new();
    stats.parses += 1;
    if src.contains('\n') {
        stats.multiline += 1;
    }
    let (got, tree) = match parse(src) {
        Parsed::Ok(e, n, docs, attrs) => {
            if docs != printed.docs || attrs != printed.attrs {
                fails.push(Failure { class: "metadata-lost".into(), detail: format!("{} documentation comments and {} attribute lists printed, {} and {} attached to bindings", printed.docs, printed.attrs, docs, attrs) });
            }
            (e, n)
        }
        Parsed::Err(msg, infix) => {
            fails.push(Failure { class: if infix { "rejected-by-reparse_infix".into() } else { "rejected".into() }, detail: msg });
            return (Some(printed), fails);
        }
        Parsed::Panic(msg) => {
            fails.push(Failure { class: "parser-panic".into(), detail: msg });
            return (Some(printed), fails);
        }
    };
    if &got != ast {
        fails.push(Failure { class: "different-tree".into(), detail: format!("parsed as {:?}", got) });
        return (Some(printed), fails);
    }
    // spans
    if let Some((class, detail)) = span_sanity(&tree, src, None) {
        fails.push(Failure { class, detail });
        return (Some(printed), fails);
    }
    let mut names = Vec::new();
    name_spans(&tree, src, &mut names);
    let mut seen = std::collections::BTreeSet::new();
    for (class, detail) in names {
        if seen.insert(class.clone()) {
            fails.push(Failure { class, detail });
        }
    }
    let mut all = Vec::new();
    collect_exprs(&tree, &mut all);
    stats.span_nodes += all.len() as u64;
    // printer ranges against gluon's spans (expression nodes that are not parentheses)
    let own: Vec<&&SpanNode> = all.iter().filter(|n| n.kind == "expr").collect();
    if own.len() != printed.ranges.len() {
        fails.push(Failure { class: "harness:node-count".into(), detail: format!("{} gluon nodes vs {} printed", own.len(), printed.ranges.len()) });
    } else {
        for (g, r) in own.iter().zip(printed.ranges.iter()) {
            let (lo, hi) = (g.lo as usize, g.hi as usize);
            let ok = r[2] <= lo && hi <= r[3] && lo <= r[0] && r[1] <= hi && only_trivia(&src[r[2]..lo]) && only_trivia(&src[hi..r[3]]) && only_trivia(&src[lo..r[0]]) && only_trivia(&src[r[1]..hi]);
            if !ok {
                let before = if lo <= r[0] { strip_known(&src[lo..r[0]]) } else { String::new() };
                let class = if before.trim_start_matches(|c| c == '(' || c == ' ' || c == '\n').starts_with("in") && before.trim().trim_start_matches('(').trim() == "in" && r[1] <= hi && only_trivia(&src[r[1]..hi]) {
                    "span-includes-preceding-in-keyword"
                } else {
                    "span-does-not-delimit-text"
                };
                fails.push(Failure {
                    class: class.into(),
                    detail: format!("node {:?} is printed at bytes [{},{}) (with its parentheses [{},{})) but gluon's span is [{},{}) = {:?}", g.expr.as_ref().unwrap(), r[0], r[1], r[2], r[3], lo, hi, &src[lo..hi]),
                });
                break;
            }
        }
    }
    // re-parsing the text of a one-line node yields that node
    for n in &all {
        let text = &src[n.lo as usize..n.hi as usize];
        if text.contains('\n') || (n.lo == 0 && n.hi as usize == src.len()) {
            continue;
        }
        stats.subspan_reparses += 1;
        match parse(text) {
            Parsed::Ok(e, _, _, _) if Some(&e) == n.expr.as_ref() => {}
            other => {
                let what = match other {
                    Parsed::Ok(e, _, _, _) => format!("parses as {:?}", e),
                    Parsed::Err(m, _) => format!("is rejected: {}", m),
                    Parsed::Panic(m) => format!("panics: {}", m),
                };
                fails.push(Failure { class: "subspan-reparse".into(), detail: format!("span text {:?} of node {:?} {}", text, n.expr.as_ref().unwrap(), what) });
                break;
            }
        }
    }
    (Some(printed), fails)
}

fn has_non_ascii_char_lit(e: &Ex) -> bool {
    let s = format!("{:?}", e);
    // Debug of Lit::Char('é') is `Char('é')`
    s.match_indices("Char('").any(|(i, _)| s[i + 6..].chars().next().map_or(false, |c| !c.is_ascii()))
}

/// Is there an `in` keyword whose column is left of the column of the innermost bracket that
/// encloses it and was opened on an earlier line? (strings, chars and comments are skipped)
fn in_left_of_enclosing_bracket(src: &str) -> bool {
    let b = src.as_bytes();
    let mut stack: Vec<(usize, usize)> = Vec::new();
    let (mut line, mut col, mut i) = (0usize, 0usize, 0usize);
    while i < b.len() {
        let c = b[i];
        match c {
            b'\n' => {
                line += 1;
                col = 0;
                i += 1;
                continue;
            }
            b'/' if i + 1 < b.len() && b[i + 1] == b'/' => {
                while i < b.len() && b[i] != b'\n' {
                    i += 1;
                }
                continue;
            }
            b'/' if i + 1 < b.len() && b[i + 1] == b'*' => {
                while i + 1 < b.len() && !(b[i] == b'*' && b[i + 1] == b'/') {
                    if b[i] == b'\n' {
                        line += 1;
                        col = 0;
                    } else {
                        col += 1;
                    }
                    i += 1;
                }
                i += 1;
                col += 1;
            }
            b'(' | b'[' | b'{' => stack.push((line, col)),
            b')' | b']' | b'}' => {
                stack.pop();
            }
            b'i' if b[i..].starts_with(b"in") && (i == 0 || !(b[i - 1].is_ascii_alphanumeric() || b[i - 1] == b'_')) && (i + 2 >= b.len() || !(b[i + 2].is_ascii_alphanumeric() || b[i + 2] == b'_' || b[i + 2] == b'\'')) => {
                if let Some((l, c0)) = stack.last() {
                    if *l < line && *c0 > col {
                        return true;
                    }
                }
            }
            _ => {}
        }
        i += 1;
        col += 1;
    }
    false
}

fn has_if_statement(e: &Ex) -> bool {
    // Debug text of `Seq(If(` only arises for an `if` in statement position
    format!("{:?}", e).contains("Seq(If(")
}

/// Root-cause key for a failing case (stable across runs; specific where the cause is understood)
fn classify(ast: &Ex, st: &Style, alt: &Option<(Lit, String)>, printed: &Printed, f: &Failure) -> String {
    if f.class == "name-span:operator-with-#-prefix" {
        return "span:operator-with-hash-prefix-covers-only-the-hash".into();
    }
    if f.class == "span-includes-preceding-in-keyword" {
        return "span:block-after-explicit-in-starts-at-the-in-keyword".into();
    }
    if f.class == "parser-panic" && (has_non_ascii_char_lit(ast) || alt.as_ref().map_or(false, |(l, _)| matches!(l, Lit::Char(c) if !c.is_ascii()))) {
        return "panic:non-ascii-char-literal".into();
    }
    // (sources with string or char literals are not scanned: the literal family has no brackets around `in`)
    if ((f.class == "rejected" && f.detail.starts_with("Unexpected token: CloseBlock")) || f.class == "different-tree") && !printed.src.contains('"') && !printed.src.contains('\'') && in_left_of_enclosing_bracket(&printed.src) {
        return "layout:body-after-explicit-in-takes-the-column-of-the-enclosing-context".into();
    }
    if f.class == "rejected" && has_if_statement(ast) && !st.paren_if_statement {
        // differential: the same layout with the `if` statement parenthesised
        let mut s2 = st.clone();
        s2.paren_if_statement = true;
        s2.redundant_paren_expr = None;
        s2.redundant_paren_pat = None;
        s2.insert = None;
        let mut s1 = s2.clone();
        s1.paren_if_statement = false;
        let mut stats = Stats::default();
        let none = |_: &Lit| None;
        let ok = |s: &Style, stats: &mut Stats| check_case(ast, s, stats, &none).1.iter().all(|f| f.class.starts_with("name-span") || f.class.starts_with("span-"));
        if ok(&s2, &mut stats) && !ok(&s1, &mut stats) {
            return "layout:no-block-separator-after-if-else-statement".into();
        }
        if st.in_style != InStyle::Implicit {
            // both this and the explicit-`in` defect may be involved: decide on the layout without `in`
            s1.in_style = InStyle::Implicit;
            s2.in_style = InStyle::Implicit;
            if ok(&s2, &mut stats) && !ok(&s1, &mut stats) {
                return "layout:no-block-separator-after-if-else-statement".into();
            }
        }
    }
    if (f.class == "rejected" || f.class == "different-tree") && st.in_style != InStyle::Implicit && (printed.src.contains("\nin\n") || printed.src.contains("\nin ") || printed.src.contains(" in\n") || printed.src.contains(" in ")) {
        // differential: the same layout with the `in` keywords left out
        let mut implicit = st.clone();
        implicit.in_style = InStyle::Implicit;
        implicit.redundant_paren_expr = None;
        implicit.redundant_paren_pat = None;
        implicit.insert = None;
        let mut explicit = implicit.clone();
        explicit.in_style = st.in_style;
        let mut stats = Stats::default();
        let none = |_: &Lit| None;
        let ok = |s: &Style, stats: &mut Stats| check_case(ast, s, stats, &none).1.iter().all(|f| f.class.starts_with("name-span") || f.class.starts_with("span-"));
        if ok(&implicit, &mut stats) && !ok(&explicit, &mut stats) {
            return "layout:body-after-explicit-in-takes-the-column-of-the-enclosing-context".into();
        }
    }
    format!("roundtrip:{}:{}:{:016x}", f.class, style_label(st), fnv(&printed.src))
}

pub struct Found {
    count: u64,
    src: String,
    what: String,
    replay: Value,
}

#[derive(Default)]
pub struct Acc {
    stats: Stats,
    asts: u64,
    cases: u64,
    by_style: BTreeMap<String, u64>,
    found: BTreeMap<String, Found>,
    /// failing cases not recorded because the table of distinct keys was full
    dropped: u64,
    samples: Vec<Value>,
}

fn record(acc: &mut Acc, ast: &Ex, st: &Style, alt: &Option<(Lit, String)>, printed: &Printed, fails: Vec<Failure>) {
    for f in fails {
        let key = classify(ast, st, alt, printed, &f);
        if !acc.found.contains_key(&key) && acc.found.len() >= 400 {
            acc.dropped += 1;
            continue;
        }
        let e = acc.found.entry(key).or_insert(Found { count: 0, src: String::new(), what: String::new(), replay: Value::Null });
        e.count += 1;
        if e.src.is_empty() || (printed.src.len(), &printed.src) < (e.src.len(), &e.src) {
            e.src = printed.src.clone();
            e.what = format!("[{}] {}: {} -- source: {:?}", style_label(st), f.class, f.detail, printed.src);
            e.replay = json!({"engine": "roundtrip", "ast": serde_json::to_value(ast).unwrap(), "style": style_json(st, alt), "source": printed.src, "class": f.class});
        }
    }
}

fn run_case(acc: &mut Acc, ast: &Ex, st: &Style, alt: &Option<(Lit, String)>) -> Option<(Printed, bool)> {
    let altf = |l: &Lit| match alt {
        Some((t, s)) if t == l => Some(s.clone()),
        _ => None,
    };
    let (p, fails) = check_case(ast, st, &mut acc.stats, &altf);
    let p = p?;
    acc.cases += 1;
    *acc.by_style.entry(style_label(st)).or_insert(0) += 1;
    let ok = fails.iter().all(|f| f.class.starts_with("name-span"));
    if acc.samples.len() < 2 && p.src.contains('\n') && acc.cases % 4099 == 11 {
        acc.samples.push(json!({"style": style_label(st), "source": p.src}));
    }
    record(acc, ast, st, alt, &p, fails);
    Some((p, ok))
}

pub fn check_ast(ast: &Ex, styles: &[Style], variants_on: &[&str], alt: &Option<(Lit, String)>, acc: &mut Acc) {
    acc.asts += 1;
    for st in styles {
        let (p, ok) = match run_case(acc, ast, st, alt) {
            Some(x) => x,
            None => continue,
        };
        if !ok || !variants_on.contains(&st.name) {
            continue;
        }
        // S3: redundant parentheses around one expression / pattern at a time
        for k in 0..p.exprs {
            let mut s2 = st.clone();
            s2.redundant_paren_expr = Some(k);
            run_case(acc, ast, &s2, alt);
        }
        for k in 0..p.pats {
            let mut s2 = st.clone();
            s2.redundant_paren_pat = Some(k);
            run_case(acc, ast, &s2, alt);
        }
        // S4: a comment / blank line in one token gap at a time
        for k in 0..p.gaps {
            for ins in [Ins::LineComment, Ins::BlockComment, Ins::BlankLine, Ins::OwnLineComment] {
                let mut s2 = st.clone();
                s2.insert = Some((k, ins));
                run_case(acc, ast, &s2, alt);
            }
        }
    }
}

fn merge(total: &mut Acc, a: Acc) {
    total.asts += a.asts;
    total.cases += a.cases;
    total.stats.parses += a.stats.parses;
    total.stats.subspan_reparses += a.stats.subspan_reparses;
    total.stats.span_nodes += a.stats.span_nodes;
    total.stats.multiline += a.stats.multiline;
    total.dropped += a.dropped;
    for (k, v) in a.by_style {
        *total.by_style.entry(k).or_insert(0) += v;
    }
    for (k, v) in a.found {
        match total.found.get_mut(&k) {
            Some(e) => {
                e.count += v.count;
                if v.src.len() < e.src.len() || (v.src.len() == e.src.len() && v.src < e.src) {
                    e.src = v.src;
                    e.what = v.what;
                    e.replay = v.replay;
                }
            }
            None => {
                total.found.insert(k, v);
            }
        }
    }
    if total.samples.len() < 6 {
        total.samples.extend(a.samples.into_iter().take(1));
    }
}

// ---- literal family

fn ex_contexts(hole: Ex) -> Vec<Ex> {
    let id = |s: &str| Ex::Ident(s.to_string());
    let b = |e: &Ex| Box::new(e.clone());
    vec![
        hole.clone(),
        Ex::App(b(&id("f")), vec![], vec![hole.clone()]),
        Ex::App(b(&id("f")), vec![], vec![hole.clone(), id("x")]),
        Ex::Infix(b(&hole), "#Int+".into(), b(&id("x"))),
        Ex::Infix(b(&id("x")), "#Int*".into(), b(&hole)),
        Ex::Let(Box::new(Bind { name: Pat::Ident("x".into()), args: vec![], typ: None, expr: hole.clone() }), b(&id("x"))),
        Ex::Let(Box::new(Bind { name: Pat::Ident("x".into()), args: vec![], typ: None, expr: id("y") }), b(&hole)),
        Ex::Array(vec![hole.clone(), id("x")]),
        Ex::Tuple(vec![id("x"), hole.clone()]),
        Ex::Record(vec![], vec![("a".into(), Some(hole.clone())), ("b".into(), None)], None),
        Ex::Lambda(vec!["x".into()], b(&hole)),
        Ex::If(b(&id("c")), b(&hole), b(&id("x"))),
        Ex::Match(b(&hole), vec![(Pat::Ident("_".into()), id("x"))]),
        Ex::Seq(b(&hole), b(&id("x"))),
    ]
}

fn pat_contexts(l: &Lit) -> Vec<Ex> {
    let id = |s: &str| Ex::Ident(s.to_string());
    let p = Pat::Lit(l.clone());
    vec![
        Ex::Match(Box::new(id("s")), vec![(p.clone(), id("x")), (Pat::Ident("_".into()), id("y"))]),
        Ex::Match(Box::new(id("s")), vec![(Pat::Ctor("A".into(), vec![p.clone(), Pat::Ident("z".into())]), id("x"))]),
        Ex::Match(Box::new(id("s")), vec![(Pat::Tuple(vec![Pat::Ident("z".into()), p.clone()]), id("x"))]),
        Ex::Match(Box::new(id("s")), vec![(Pat::Record(vec![PField::Value("a".into(), Some(p.clone()))], false), id("x"))]),
        Ex::Match(Box::new(id("s")), vec![(Pat::As("z".into(), Box::new(p.clone())), id("x"))]),
    ]
}

/// (value, spellings); the first spelling is the printer's default (None)
pub fn literal_family() -> Vec<(Lit, Vec<Option<String>>)> {
    let s = |x: &str| Some(x.to_string());
    let f = |x: f64| Lit::Float(x.to_bits());
    vec![
        (Lit::Int(0), vec![None, s("0x0"), s("00")]),
        (Lit::Int(7), vec![None, s("0x7"), s("007")]),
        (Lit::Int(255), vec![None, s("0xFF"), s("0xff")]),
        (Lit::Int(-1), vec![None, s("-0x1")]),
        (Lit::Int(-16), vec![None, s("-0x10")]),
        (Lit::Int(i64::MAX), vec![None, s("0x7FFFFFFFFFFFFFFF")]),
        (Lit::Int(i64::MIN), vec![None, s("-0x8000000000000000")]),
        (Lit::Byte(0), vec![None]),
        (Lit::Byte(7), vec![None, s("007b")]),
        (Lit::Byte(255), vec![None]),
        (f(0.0), vec![None, s("0.00")]),
        (f(1.5), vec![None, s("1.50"), s("01.5")]),
        (f(3.14), vec![None]),
        (f(-2.25), vec![None]),
        (f(123456.789), vec![None]),
        (f(1.0), vec![None, s("1.")]),
        (Lit::Str("".into()), vec![None, s("r\"\""), s("r#\"\"#")]),
        (Lit::Str("a".into()), vec![None, s("r\"a\""), s("r##\"a\"##")]),
        (Lit::Str("hello world".into()), vec![None]),
        (Lit::Str("a\nb".into()), vec![None, s("r\"a\nb\"")]),
        (Lit::Str("\t\r".into()), vec![None]),
        (Lit::Str("q\"q".into()), vec![None, s("r#\"q\"q\"#")]),
        (Lit::Str("b\\s".into()), vec![None, s("r\"b\\s\"")]),
        (Lit::Str("it's".into()), vec![None, s("\"it\\'s\"")]),
        (Lit::Str("a/b".into()), vec![None, s("\"a\\/b\"")]),
        (Lit::Str("\"#".into()), vec![None, s("r##\"\"#\"##")]),
        (Lit::Str("// not a comment".into()), vec![None]),
        (Lit::Str("/* nor this */".into()), vec![None]),
        (Lit::Str("let x = (in {".into()), vec![None]),
        (Lit::Str("\u{e9}\u{65e5}\u{672c}".into()), vec![None, s("r\"\u{e9}\u{65e5}\u{672c}\"")]),
        (Lit::Char('a'), vec![None]),
        (Lit::Char(' '), vec![None]),
        (Lit::Char('0'), vec![None]),
        (Lit::Char('\''), vec![None]),
        (Lit::Char('\\'), vec![None]),
        (Lit::Char('\n'), vec![None]),
        (Lit::Char('\t'), vec![None]),
        (Lit::Char('\r'), vec![None]),
        (Lit::Char('"'), vec![None, s("'\\\"'")]),
        (Lit::Char('/'), vec![None, s("'\\/'")]),
        (Lit::Char('\u{e9}'), vec![None]),
        (Lit::Char('\u{65e5}'), vec![None]),
    ]
}

fn literal_cases() -> Vec<(Ex, Option<(Lit, String)>)> {
    let mut out = Vec::new();
    for (l, spellings) in literal_family() {
        for sp in spellings {
            let alt = sp.map(|s| (l.clone(), s));
            for e in ex_contexts(Ex::Lit(l.clone())) {
                out.push((e, alt.clone()));
            }
            for e in pat_contexts(&l) {
                out.push((e, alt.clone()));
            }
        }
    }
    out
}

// ---- nesting family: every composition of one-hole contexts around a minimal instance of each construct

const H: &str = "?";

fn hid() -> Ex {
    Ex::Ident(H.into())
}

fn hbind(args: usize, e: Ex) -> Bind {
    Bind { name: Pat::Ident(H.into()), args: (0..args).map(|_| (false, H.to_string())).collect(), typ: None, expr: e }
}

fn alias_t() -> TBind {
    TBind { name: "T".into(), params: vec![], body: Ty::Name("Int".into()) }
}

fn variant_t() -> TBind {
    TBind { name: "V".into(), params: vec!["a".into()], body: Ty::Variant(vec![("A".into(), vec![Ty::Var("a".into())]), ("B".into(), vec![])]) }
}

pub fn nest_inners() -> Vec<Ex> {
    let b = |e: Ex| Box::new(e);
    vec![
        hid(),
        Ex::Let(Box::new(hbind(0, hid())), b(hid())),
        Ex::Let(Box::new(hbind(1, hid())), b(hid())),
        Ex::LetRec(vec![hbind(1, hid()), hbind(0, hid())], b(hid())),
        Ex::Type(vec![variant_t()], b(hid())),
        Ex::Type(vec![variant_t(), alias_t()], b(hid())),
        Ex::If(b(hid()), b(hid()), b(hid())),
        Ex::Match(b(hid()), vec![(Pat::Ctor("C".into(), vec![Pat::Ident(H.into())]), hid()), (Pat::Ident("_".into()), hid())]),
        Ex::Lambda(vec![H.into()], b(hid())),
        Ex::App(b(hid()), vec![], vec![hid(), hid()]),
        Ex::Infix(b(hid()), "#Int+".into(), b(hid())),
        Ex::Record(vec![], vec![(H.into(), Some(hid())), (H.into(), None)], None),
        Ex::Record(vec![], vec![(H.into(), Some(hid()))], Some(b(hid()))),
        Ex::Tuple(vec![hid(), hid()]),
        Ex::Array(vec![hid(), hid()]),
        Ex::Proj(b(hid()), H.into()),
        Ex::Do(Pat::Ident(H.into()), None, b(hid()), b(hid())),
        Ex::Seq(b(hid()), b(hid())),
    ]
}

pub fn nest_contexts() -> Vec<fn(Ex) -> Ex> {
    fn b(e: Ex) -> Box<Ex> {
        Box::new(e)
    }
    vec![
        |h| Ex::Let(Box::new(hbind(0, h)), b(hid())),
        |h| Ex::Let(Box::new(hbind(0, hid())), b(h)),
        |h| Ex::Let(Box::new(hbind(2, h)), b(hid())),
        |h| Ex::LetRec(vec![hbind(1, h), hbind(0, hid())], b(hid())),
        |h| Ex::LetRec(vec![hbind(1, hid()), hbind(1, h)], b(hid())),
        |h| Ex::LetRec(vec![hbind(1, hid())], b(h)),
        |h| Ex::Type(vec![alias_t()], b(h)),
        |h| Ex::Type(vec![variant_t(), alias_t()], b(h)),
        |h| Ex::If(b(h), b(hid()), b(hid())),
        |h| Ex::If(b(hid()), b(h), b(hid())),
        |h| Ex::If(b(hid()), b(hid()), b(h)),
        |h| Ex::Match(b(h), vec![(Pat::Ident("_".into()), hid())]),
        |h| Ex::Match(b(hid()), vec![(Pat::Ctor("C".into(), vec![]), h), (Pat::Ident("_".into()), hid())]),
        |h| Ex::Match(b(hid()), vec![(Pat::Ctor("C".into(), vec![]), hid()), (Pat::Ident("_".into()), h)]),
        |h| Ex::Lambda(vec![H.into()], b(h)),
        |h| Ex::App(b(hid()), vec![], vec![h, hid()]),
        |h| Ex::App(b(hid()), vec![], vec![hid(), h]),
        |h| Ex::Infix(b(h), "#Int*".into(), b(hid())),
        |h| Ex::Infix(b(hid()), "#Int*".into(), b(h)),
        |h| Ex::Record(vec![], vec![(H.into(), Some(h)), (H.into(), Some(hid()))], None),
        |h| Ex::Record(vec![], vec![(H.into(), Some(hid())), (H.into(), Some(h))], None),
        |h| Ex::Record(vec![], vec![(H.into(), Some(hid()))], Some(b(h))),
        |h| Ex::Tuple(vec![h, hid()]),
        |h| Ex::Tuple(vec![hid(), h]),
        |h| Ex::Array(vec![h, hid()]),
        |h| Ex::Array(vec![hid(), h]),
        |h| Ex::Proj(b(h), H.into()),
        |h| Ex::Do(Pat::Ident(H.into()), None, b(h), b(hid())),
        |h| Ex::Do(Pat::Ident(H.into()), None, b(hid()), b(h)),
        |h| Ex::Seq(b(h), b(hid())),
        |h| Ex::Seq(b(hid()), b(h)),
    ]
}

pub fn nest_case(mut idx: usize, depth: usize, ctxs: &[fn(Ex) -> Ex], inners: &[Ex]) -> Ex {
    let mut e = inners[idx % inners.len()].clone();
    idx /= inners.len();
    for _ in 1..depth {
        e = ctxs[idx % ctxs.len()](e);
        idx /= ctxs.len();
    }
    named(&e)
}

// ---- driver

pub fn run(tier: &str) -> Report {
    let mut report = Report::new("C08", tier, "exploration");
    if let Ok(p) = std::env::var("VERIF_C08_PROBE") {
        let text = std::fs::read_to_string(&p).unwrap();
        for chunk in text.split("\n====\n") {
            probe(chunk.trim_end_matches('\n'));
        }
        std::process::exit(0);
    }
    let quick = tier == "quick";
    let env_usize = |k: &str, d: usize| std::env::var(k).ok().and_then(|s| s.parse().ok()).unwrap_or(d);
    let deadline = par::deadline_for(tier, 33, 1380);
    let mut capped = false;
    let mut evaluations = 0u64;
    let mut nontrivial = 0u64;

    // (1) operator chains
    let k8 = env_usize("VERIF_C08_OPERANDS", if quick { 6 } else { 7 });
    let (n, nt, c) = run_chains(&mut report, "ops8", k8, deadline);
    evaluations += report.get_u64("chains.ops8.observed_via_reparse_infix") + report.get_u64("chains.ops8.observed_via_evaluation");
    nontrivial += nt;
    capped |= c;
    let mut chains_total = n;
    let k10 = env_usize("VERIF_C08_OPERANDS10", if quick { 4 } else { 6 });
    let (n, nt, c) = run_chains(&mut report, "ops10", k10, deadline);
    evaluations += report.get_u64("chains.ops10.observed_via_reparse_infix") + report.get_u64("chains.ops10.observed_via_evaluation");
    nontrivial += nt;
    capped |= c;
    chains_total += n;
    evaluations += run_scoping(&mut report);
    report.set("chains.enumerated", chains_total);
    report.set("chains.conflicts_expected", report.get_u64("chains.ops8.conflicts_expected") + report.get_u64("chains.ops10.conflicts_expected"));
    report.set("chains.conflicts_reported_by_gluon", report.get_u64("chains.ops8.conflicts_reported_by_gluon") + report.get_u64("chains.ops10.conflicts_reported_by_gluon"));

    // (2) AST round trip
    let mut styles = base_styles(tier);
    if let Ok(only) = std::env::var("VERIF_C08_STYLES") {
        let names: Vec<&str> = only.split(',').collect();
        styles.retain(|s| names.contains(&s.name));
    }
    let variants_on: Vec<&str> = if std::env::var("VERIF_C08_VARIANTS").map(|v| v == "0").unwrap_or(false) { vec![] } else { vec!["oneline", "block2"] };
    let no_variants: Vec<&str> = vec![];
    let mut total = Acc::default();

    // literals: every value x spelling x context
    {
        let cases = literal_cases();
        let cases_ref = &cases;
        let styles_ref = &styles;
        let sweep = par::sweep(cases.len(), 8, Some(deadline), |_| (), |_, acc: &mut Acc, i| {
            let (e, alt) = &cases_ref[i];
            // raw strings with a line break in them shift the columns of what follows: one-line style only
            let multi = alt.as_ref().map_or(false, |(_, s)| s.contains('\n'));
            let st: Vec<Style> = styles_ref.iter().filter(|s| !multi || s.name == "oneline").cloned().collect();
            check_ast(e, &st, &["oneline"], alt, acc);
        });
        capped |= sweep.capped;
        let mut lit_acc = Acc::default();
        for a in sweep.results {
            merge(&mut lit_acc, a);
        }
        report.set("literals.values", literal_family().len() as u64);
        report.set("literals.asts", lit_acc.asts);
        report.set("literals.cases", lit_acc.cases);
        merge(&mut total, lit_acc);
    }

    // nesting family
    {
        let ctxs = nest_contexts();
        let inners = nest_inners();
        let max_depth = env_usize("VERIF_C08_NEST", if quick { 3 } else { 4 });
        let mut nest_acc = Acc::default();
        let mut done_depth = 0;
        for depth in 2..=max_depth {
            let n = inners.len() * ctxs.len().pow(depth as u32 - 1);
            let (c_ref, i_ref, styles_ref) = (&ctxs, &inners, &styles);
            let sweep = par::sweep(n, 32, Some(deadline), |_| (), |_, acc: &mut Acc, i| {
                let ast = nest_case(i, depth, c_ref, i_ref);
                check_ast(&ast, styles_ref, &[], &None, acc);
            });
            let was_capped = sweep.capped;
            for a in sweep.results {
                merge(&mut nest_acc, a);
            }
            report.set(&format!("nesting.depth{}.asts_in_space", depth), n as u64);
            if was_capped {
                capped = true;
                break;
            }
            done_depth = depth;
        }
        report.set("nesting.contexts", ctxs.len() as u64);
        report.set("nesting.constructs", inners.len() as u64);
        report.set("nesting.depth_completed", done_depth as u64);
        report.set("nesting.asts", nest_acc.asts);
        report.set("nesting.cases", nest_acc.cases);
        merge(&mut total, nest_acc);
    }

    let full_size = env_usize("VERIF_C08_SIZE", if quick { 4 } else { 5 });
    let base_only_size = env_usize("VERIF_C08_SIZE_BASE", if quick { 5 } else { 6 });
    let mut g = ExGen::new(GenCfg::quick());
    let mut completed = 0usize;
    for size in 1..=base_only_size.max(full_size) {
        let xs = g.exprs(size);
        let n = xs.len();
        let xs_ref = &xs;
        let styles_ref = &styles;
        let vref: &Vec<&str> = if size <= full_size { &variants_on } else { &no_variants };
        let sweep = par::sweep(n, 64, Some(deadline), |_| (), |_, acc: &mut Acc, i| {
            let ast = named(&xs_ref[i]);
            check_ast(&ast, styles_ref, vref, &None, acc);
        });
        let was_capped = sweep.capped;
        let done = sweep.done;
        let mut size_acc = Acc::default();
        for a in sweep.results {
            merge(&mut size_acc, a);
        }
        report.set(&format!("roundtrip.size{}.asts_in_space", size), n as u64);
        report.set(&format!("roundtrip.size{}.asts_checked", size), done as u64);
        report.set(&format!("roundtrip.size{}.cases", size), size_acc.cases);
        report.set(&format!("roundtrip.size{}.with_paren_and_comment_variants", size), size <= full_size && !variants_on.is_empty());
        merge(&mut total, size_acc);
        if was_capped {
            capped = true;
            break;
        }
        completed = size;
    }
    report.set("roundtrip.size_bound_completed", completed as u64);
    report.set("roundtrip.asts", total.asts);
    report.set("roundtrip.asts_x_styles", total.cases);
    report.set("roundtrip.cases_by_style", json!(total.by_style));
    report.set("roundtrip.multi_line_sources", total.stats.multiline);
    report.set("roundtrip.span_nodes_checked", total.stats.span_nodes);
    report.set("roundtrip.subspan_reparses", total.stats.subspan_reparses);
    evaluations += total.cases;
    nontrivial += total.stats.multiline;
    for s in total.samples.iter().take(4) {
        report.sample(s.clone());
    }

    // violations: confirm each class on its smallest example by replaying it from its artefact
    let mut classes = BTreeMap::new();
    if std::env::var_os("VERIF_C08_DUMP").is_some() {
        for (key, f) in &total.found {
            eprintln!("FOUND {} x{}\n{}\n{}\n", key, f.count, f.src, f.what);
        }
    }
    for (key, f) in &total.found {
        classes.insert(key.clone(), f.count);
        let again = replay(&f.replay);
        if again.violations.is_empty() {
            report.machinery(format!("case {} did not reproduce on replay: {}", key, f.what));
            continue;
        }
        report.violation(key.clone(), format!("{} case(s); smallest: {}", f.count, f.what), f.replay.clone());
    }
    report.set("roundtrip.failing_cases_by_key", json!(classes));
    report.set("roundtrip.failing_cases_beyond_key_table", total.dropped);

    report.set("evaluations", evaluations);
    report.set("distinct_nontrivial", nontrivial);
    report.set("exhaustive", !capped);
    report.set("wall_cap_hit", capped);
    report.set(
        "rule",
        "(1) every chain of 2..=k operands over a fixity table (ops8: 4 declared operators {4,6}x{left,right} + #Int+ #Int* && #Int==; \
         ops10: declared 0/4/5/6/9 + || #Int<), each enumerated once; reference grouping = the unique binary tree in which every \
         parent/child operator pair obeys precedence and associativity (all Catalan trees enumerated), none => fixity conflict expected; \
         gluon observed through the compiler pipeline up to reparse_infix and, for chains of declared operators, by evaluating the \
         program (operators build a tree value); non-trivial = at least two operators. (2) every expression AST with exactly n nodes \
         (n = 1..size bound) over identifiers, literals, application incl. implicit arguments, infix, lambda, let (pattern / function / \
         annotated), rec groups, type bindings (alias, variant, record, rec group), if, match (1-2 alternatives, all patterns of the \
         pattern grammar up to the size), records (shorthand, type fields, base), tuples, arrays, projection, do, seq/blocks, leaves \
         named apart in source order, x concrete styles (one-line with explicit in; std-like layout with indent 1/2/4, compact or fully \
         expanded, implicit in / in on its own line / in + body; redundant parentheses around each expression and pattern; a line \
         comment, block comment, blank line, own-line comment in each token gap; doc comment / attribute lines before bindings; \
         `else if` chains; arguments on their own lines; CRLF) plus every literal value x spelling x 19 contexts, plus every \
         composition (depth 2..d) of 31 one-hole contexts around a minimal instance of each of 18 constructs; \
         each parsed by gluon_parser::parse_partial_expr + reparse_infix and compared with the AST, spans checked for sanity, \
         agreement with the printer's byte ranges and re-parse of every one-line node text; non-trivial = source of more than one line \
         (the layout algorithm had to insert tokens)",
    );
    report.assume("only layouts with a precedent in book/src/syntax-and-semantics.md or std/*.glu are printed; in particular a line break inside a block opened in the middle of a line is only printed where nothing but closing brackets follows (lambda body, record literal), bare statement sequences are only printed where gluon opens a block (top level, after `=` of let/do, `->`, then, else, in), and inside brackets the `seq` keyword is used (examples/lisp/lisp.glu)");
    report.assume("a rec group directly followed by a let/type on its column is closed with an explicit `in` (the layout continues the group otherwise, as documented by the book's rec examples)");
    report.assume("if-conditions and match-scrutinees that are lambdas/let/if/match are parenthesised; numeric literals are parenthesised before `.field`; operators are always surrounded by spaces (`x -1` is an application to a negative literal by design)");
    report.assume("gluon's own span conventions are not second-guessed: a span must lie in the source on char boundaries, nest, not overlap its siblings, cover the printed node up to whitespace/comments/parentheses, name spans must spell the name, and the text of a one-line expression span must parse to that expression");
    report.assume("operator fixity in the round-trip part uses only gluon's built-in table (#Int+ #Int* ||); declared fixities are covered by part (1)");
    report
}

pub fn replay(v: &Value) -> Report {
    let mut report = Report::new("C08", "quick", "exploration");
    match v["engine"].as_str() {
        Some("chain") => {
            let table = if v["table"].as_str() == Some("ops10") { "ops10" } else { "ops8" };
            let ops = table_by_name(table);
            let chain: Vec<usize> = v["chain"].as_array().map(|a| a.iter().filter_map(|x| x.as_u64().map(|x| x as usize)).collect()).unwrap_or_default();
            let trees = all_trees(0, chain.len());
            let mut acc = ChainAcc::default();
            let mut w = ChainWorker::new();
            println!("source:\n{}", chain_source(&chain, ops));
            check_chain(&mut w, &mut acc, table, ops, &chain, &trees);
            for (k, what, r) in acc.violations {
                println!("{}", what);
                report.violation(k, what, r);
            }
        }
        Some("scoping") => {
            let mut r = Report::new("C08", "quick", "exploration");
            run_scoping(&mut r);
            let src = v["source"].as_str().unwrap_or("");
            for x in r.violations {
                if x.replay["source"].as_str() == Some(src) {
                    println!("{}", x.what);
                    report.violation("replay", x.what, v.clone());
                }
            }
        }
        Some("roundtrip") => {
            let ast: Ex = match serde_json::from_value(v["ast"].clone()) {
                Ok(a) => a,
                Err(e) => {
                    report.machinery(format!("bad replay ast: {}", e));
                    return report;
                }
            };
            let (st, alt) = match style_from_json(&v["style"]) {
                Some(x) => x,
                None => {
                    report.machinery("bad replay style");
                    return report;
                }
            };
            let altf = |l: &Lit| match &alt {
                Some((t, s)) if t == l => Some(s.clone()),
                _ => None,
            };
            let mut stats = Stats::default();
            let (p, fails) = check_case(&ast, &st, &mut stats, &altf);
            if std::env::var_os("VERIF_C08_VERBOSE").is_some() {
                if let Some(p) = &p {
                    println!("source:\n{}\nexpected tree: {:?}", p.src, ast);
                }
            }
            let wanted = v["class"].as_str().unwrap_or("");
            for f in fails {
                if wanted.is_empty() || f.class == wanted {
                    if std::env::var_os("VERIF_C08_VERBOSE").is_some() {
                        println!("{}: {}", f.class, f.detail);
                    }
                    report.violation("replay", format!("{}: {}", f.class, f.detail), v.clone());
                }
            }
        }
        _ => report.machinery("unknown replay artefact"),
    }
    report
}
