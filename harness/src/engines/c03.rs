//! C03 — type inference is complete and principal on the ML fragment.
//!
//! Space: ALL untyped closed terms up to AST size N of the ML fragment (typable or not), addressed by
//! an index (count / unrank), so the sweep is a plain parallel loop over 0..count(N).
//! Oracle 1 (reference model): an independent substitution-based algorithm W (module `algw`) with
//! ordered closed records and open rows. If W types the term gluon must accept it and the reported
//! type (walked structurally, quantifiers stripped, variables renamed by first occurrence) must be
//! W's principal type.
//! Oracle 2 (differential on gluon itself): alpha-renaming with maximal legal shadowing, unused
//! bindings (top level / under every binder), annotating the whole program and every `let` with the
//! type gluon itself inferred for it — acceptance and the reported type must not change.

use crate::par;
use crate::report::Report;
use crate::vmkit::{self, Settings};
use gluon::base::ast::{self, Expr, Pattern, SpannedExpr, Visitor};
use gluon::base::symbol::Symbol;
use gluon::base::types::{row_iter, ArcType, ArgType, BuiltinType, Type, TypeExt};
use gluon::{RootedThread, ThreadExt};
use serde_derive::{Deserialize, Serialize};
use serde_json::{json, Value};
use std::collections::{BTreeMap, HashMap, HashSet};
use std::fmt::Write as _;

// =================================================================================================
// terms

#[derive(Clone, Copy, Debug, PartialEq, Eq, Hash, PartialOrd, Ord)]
pub enum Atom {
    Int,
    Str,
    True,
    False,
    Unit,
    N,
    S,
    A,
    B,
    EmptyArr,
}
pub const ATOMS: [Atom; 10] = [
    Atom::Int,
    Atom::Str,
    Atom::True,
    Atom::False,
    Atom::Unit,
    Atom::N,
    Atom::S,
    Atom::A,
    Atom::B,
    Atom::EmptyArr,
];

/// Variables are de Bruijn LEVELS (0 = outermost binder in scope).
#[derive(Clone, Debug, PartialEq, Eq, Hash)]
pub enum T {
    Var(usize),
    Atom(Atom),
    /// `\x -> e`
    Lam(Box<T>),
    App(Box<T>, Box<T>),
    /// `let v = e1 in e2` (v not in scope in e1)
    Let(Box<T>, Box<T>),
    /// `let f x = e1 in e2` (only x is referable in e1)
    LetF(Box<T>, Box<T>),
    /// `rec let f x = e1 in e2` (f, x in e1; f in e2)
    LetRec(Box<T>, Box<T>),
    If(Box<T>, Box<T>, Box<T>),
    /// record literal, labels distinct
    Rec(Vec<(&'static str, T)>),
    Proj(Box<T>, &'static str),
    Tup(Box<T>, Box<T>),
    Arr(Vec<T>),
    /// `match e with | N -> a | S m -> b`
    MatchO(Box<T>, Box<T>, Box<T>),
    /// `match e with | A -> a | B m -> b`
    MatchV(Box<T>, Box<T>, Box<T>),
    /// `match e with | (p, q) -> b`
    MatchT(Box<T>, Box<T>),
}

impl T {
    pub fn size(&self) -> usize {
        use T::*;
        match self {
            Var(_) | Atom(_) => 1,
            Lam(a) | Proj(a, _) => 1 + a.size(),
            App(a, b) | Let(a, b) | LetF(a, b) | LetRec(a, b) | Tup(a, b) | MatchT(a, b) => 1 + a.size() + b.size(),
            If(a, b, c) | MatchO(a, b, c) | MatchV(a, b, c) => 1 + a.size() + b.size() + c.size(),
            Rec(fs) => 1 + fs.iter().map(|f| f.1.size()).sum::<usize>(),
            Arr(xs) => 1 + xs.iter().map(|x| x.size()).sum::<usize>(),
        }
    }
    fn any(&self, f: &mut dyn FnMut(&T) -> bool) -> bool {
        use T::*;
        if f(self) {
            return true;
        }
        match self {
            Var(_) | Atom(_) => false,
            Lam(a) | Proj(a, _) => a.any(f),
            App(a, b) | Let(a, b) | LetF(a, b) | LetRec(a, b) | Tup(a, b) | MatchT(a, b) => a.any(f) || b.any(f),
            If(a, b, c) | MatchO(a, b, c) | MatchV(a, b, c) => a.any(f) || b.any(f) || c.any(f),
            Rec(fs) => fs.iter().any(|x| x.1.any(f)),
            Arr(xs) => xs.iter().any(|x| x.any(f)),
        }
    }
    pub fn has_binder(&self) -> bool {
        self.any(&mut |t| matches!(t, T::Lam(_) | T::Let(..) | T::LetF(..) | T::LetRec(..)))
    }
    pub fn count_lets(&self) -> usize {
        let mut n = 0;
        self.any(&mut |t| {
            if matches!(t, T::Let(..) | T::LetF(..) | T::LetRec(..)) {
                n += 1;
            }
            false
        });
        n
    }
}

// -------------------------------------------------------------------------------------------------
// productions, counting and unranking

#[derive(Clone, Copy, Debug, PartialEq, Eq)]
pub enum K {
    Lam,
    App,
    Let,
    LetF,
    LetRec,
    If,
    RX,
    RY,
    RXY,
    RYX,
    PX,
    PY,
    Tup,
    Arr1,
    Arr2,
    MO,
    MV,
    MT,
}

/// (kind, depth delta of every child)
const PRODS: &[(K, &[usize])] = &[
    (K::Lam, &[1]),
    (K::App, &[0, 0]),
    (K::Let, &[0, 1]),
    (K::LetF, &[1, 1]),
    (K::LetRec, &[2, 1]),
    (K::If, &[0, 0, 0]),
    (K::RX, &[0]),
    (K::RY, &[0]),
    (K::RXY, &[0, 0]),
    (K::RYX, &[0, 0]),
    (K::PX, &[0]),
    (K::PY, &[0]),
    (K::Tup, &[0, 0]),
    (K::Arr1, &[0]),
    (K::Arr2, &[0, 0]),
    (K::MO, &[0, 0, 1]),
    (K::MV, &[0, 0, 1]),
    (K::MT, &[0, 2]),
];

fn build(k: K, mut c: Vec<T>) -> T {
    let mut next = || Box::new(c.remove(0));
    match k {
        K::Lam => T::Lam(next()),
        K::App => T::App(next(), next()),
        K::Let => T::Let(next(), next()),
        K::LetF => T::LetF(next(), next()),
        K::LetRec => T::LetRec(next(), next()),
        K::If => T::If(next(), next(), next()),
        K::RX => T::Rec(vec![("x", *next())]),
        K::RY => T::Rec(vec![("y", *next())]),
        K::RXY => T::Rec(vec![("x", *next()), ("y", *next())]),
        K::RYX => T::Rec(vec![("y", *next()), ("x", *next())]),
        K::PX => T::Proj(next(), "x"),
        K::PY => T::Proj(next(), "y"),
        K::Tup => T::Tup(next(), next()),
        K::Arr1 => T::Arr(vec![*next()]),
        K::Arr2 => T::Arr(vec![*next(), *next()]),
        K::MO => T::MatchO(next(), next(), next()),
        K::MV => T::MatchV(next(), next(), next()),
        K::MT => T::MatchT(next(), next()),
    }
}

/// Counting table: `c[s][d]` = number of terms of size exactly `s` with `d` variables in scope.
pub struct Space {
    pub name: &'static str,
    pub max: usize,
    atoms: Vec<Atom>,
    prods: Vec<(K, &'static [usize])>,
    c: Vec<Vec<u64>>,
    /// a space given by an explicit list of terms (all in the single "size" class 1)
    fixed: Option<Vec<T>>,
}

/// the enumerated fragments
pub fn space(name: &str, max: usize) -> Space {
    match name {
        // everything (False is left out: it is True for the type checker)
        "ml" => Space::new("ml", max, ATOMS.iter().cloned().filter(|a| *a != Atom::False).collect(), PRODS.to_vec()),
        // records and rows only, so that the size bound can be three larger
        "rows" => Space::new(
            "rows",
            max,
            vec![Atom::Int],
            PRODS
                .iter()
                .cloned()
                .filter(|p| matches!(p.0, K::Lam | K::App | K::Let | K::RX | K::RXY | K::RYX | K::PX | K::PY | K::Arr2))
                .collect(),
        ),
        // records with both fields only: one more size
        "rows2" => Space::new(
            "rows2",
            max,
            vec![Atom::Int],
            PRODS.iter().cloned().filter(|p| matches!(p.0, K::Lam | K::App | K::RXY | K::RYX | K::PX | K::PY | K::Arr2)).collect(),
        ),
        // shape products around let-generalisation under escaping variables (see level_templates)
        "levels" => Space::fixed("levels", level_templates()),
        other => panic!("unknown space {}", other),
    }
}

/// Full product of shapes in which a variable of an ENCLOSING lambda meets the parameter of a
/// let-bound function inside a type constructor — the situations in which generalisation levels
/// must be lowered. These terms have size 9-16, far above the exhaustive size bound.
///   outer  in { \y -> ., \w -> \y -> . }
///   let    in { let f x = I in U, rec let f x = I in U, let f = \x -> I in U }
///   I      in 8 ways of combining y with C[x]
///   C[x]   in { x, {x = x}, {x = x, y = 1}, (x, 1), [x], \z -> x, S x }
///   U      in { f 1, (f 1, f "s"), {x = f 1, y = f "s"}, f, [f 1], f (f 1) }
pub fn level_templates() -> Vec<T> {
    use T::*;
    let b = |t: T| Box::new(t);
    let int = || Atom(self::Atom::Int);
    let strl = || Atom(self::Atom::Str);
    let mut out = Vec::new();
    for outer in 0..2usize {
        // y is the innermost outer lambda; d = number of variables in scope inside the outer lambdas
        let (yl, d) = if outer == 0 { (0usize, 1usize) } else { (1, 2) };
        for letk in 0..3usize {
            // levels of f and x inside I, of f inside U
            let (xl, fl_use) = match letk {
                0 => (d, d),     // LetF: x at d in I; f at d in U
                1 => (d + 1, d), // LetRec: f at d, x at d + 1 in I
                _ => (d, d),     // Let(Lam): x at d in I
            };
            let inner_depth = xl + 1;
            for ci in 0..7usize {
                let c = |x: T| -> T {
                    match ci {
                        0 => x,
                        1 => Rec(vec![("x", x)]),
                        2 => Rec(vec![("x", x), ("y", Atom(self::Atom::Int))]),
                        3 => Tup(Box::new(x), Box::new(Atom(self::Atom::Int))),
                        4 => Arr(vec![x]),
                        5 => Lam(Box::new(x)),
                        _ => App(Box::new(Atom(self::Atom::S)), Box::new(x)),
                    }
                };
                for ii in 0..8usize {
                    let y = || Var(yl);
                    let x = || Var(xl);
                    let inner = match ii {
                        0 => App(b(y()), b(c(x()))),
                        1 => Arr(vec![App(b(y()), b(int())), c(x())]),
                        2 => Tup(b(App(b(y()), b(c(x())))), b(x())),
                        3 => If(b(Atom(self::Atom::True)), b(App(b(y()), b(int()))), b(c(x()))),
                        4 => Rec(vec![("x", App(b(y()), b(c(x()))))]),
                        5 => App(b(Proj(b(y()), "x")), b(c(x()))),
                        6 => App(b(App(b(y()), b(c(x())))), b(x())),
                        _ => Let(b(App(b(y()), b(c(x())))), b(Var(inner_depth))),
                    };
                    for ui in 0..6usize {
                        let f = || Var(fl_use);
                        let usage = match ui {
                            0 => App(b(f()), b(int())),
                            1 => Tup(b(App(b(f()), b(int()))), b(App(b(f()), b(strl())))),
                            2 => Rec(vec![("x", App(b(f()), b(int()))), ("y", App(b(f()), b(strl())))]),
                            3 => f(),
                            4 => Arr(vec![App(b(f()), b(int()))]),
                            _ => App(b(f()), b(App(b(f()), b(int())))),
                        };
                        let body = match letk {
                            0 => LetF(b(inner.clone()), b(usage)),
                            1 => LetRec(b(inner.clone()), b(usage)),
                            _ => Let(b(Lam(b(inner.clone()))), b(usage)),
                        };
                        out.push(if outer == 0 { Lam(b(body)) } else { Lam(b(Lam(b(body)))) });
                    }
                }
            }
        }
    }
    out
}

fn compositions(total: usize, parts: usize, f: &mut dyn FnMut(&[usize])) {
    fn go(total: usize, parts: usize, cur: &mut Vec<usize>, f: &mut dyn FnMut(&[usize])) {
        if parts == 1 {
            if total >= 1 {
                cur.push(total);
                f(cur);
                cur.pop();
            }
            return;
        }
        for first in 1..=total.saturating_sub(parts - 1) {
            cur.push(first);
            go(total - first, parts - 1, cur, f);
            cur.pop();
        }
    }
    go(total, parts, &mut Vec::new(), f)
}

impl Space {
    pub fn new(name: &'static str, max: usize, atoms: Vec<Atom>, prods: Vec<(K, &'static [usize])>) -> Space {
        let dmax = max + 3;
        let mut c = vec![vec![0u64; dmax + 1]; max + 1];
        for s in 1..=max {
            for d in 0..=dmax {
                if s == 1 {
                    c[s][d] = (atoms.len() + d) as u64;
                    continue;
                }
                let mut total = 0u64;
                for (_, deltas) in &prods {
                    if deltas.iter().any(|x| d + x > dmax) {
                        continue;
                    }
                    compositions(s - 1, deltas.len(), &mut |sizes| {
                        let mut p = 1u64;
                        for (sz, dl) in sizes.iter().zip(deltas.iter()) {
                            p = p.saturating_mul(c[*sz][d + dl]);
                        }
                        total = total.saturating_add(p);
                    });
                }
                c[s][d] = total;
            }
        }
        Space { name, max, atoms, prods, c, fixed: None }
    }
    pub fn fixed(name: &'static str, terms: Vec<T>) -> Space {
        Space { name, max: 1, atoms: vec![], prods: vec![], c: vec![], fixed: Some(terms) }
    }
    pub fn is_fixed(&self) -> bool {
        self.fixed.is_some()
    }
    pub fn count(&self, s: usize) -> u64 {
        if let Some(f) = &self.fixed {
            return if s == 1 { f.len() as u64 } else { 0 };
        }
        self.c[s][0]
    }
    /// the `i`-th term of size `s` with `d` variables in scope
    pub fn unrank(&self, s: usize, d: usize, mut i: u64) -> T {
        if let Some(f) = &self.fixed {
            return f[i as usize].clone();
        }
        if s == 1 {
            let i = i as usize;
            return if i < self.atoms.len() { T::Atom(self.atoms[i]) } else { T::Var(i - self.atoms.len()) };
        }
        for (k, deltas) in &self.prods {
            let mut found: Option<Vec<usize>> = None;
            compositions(s - 1, deltas.len(), &mut |sizes| {
                if found.is_some() {
                    return;
                }
                let mut p = 1u64;
                for (sz, dl) in sizes.iter().zip(deltas.iter()) {
                    p = p.saturating_mul(self.c[*sz][d + dl]);
                }
                if i < p {
                    found = Some(sizes.to_vec());
                } else {
                    i -= p;
                }
            });
            if let Some(sizes) = found {
                // mixed radix, last child fastest
                let mut children = Vec::with_capacity(sizes.len());
                let mut idx = vec![0u64; sizes.len()];
                for j in (0..sizes.len()).rev() {
                    let n = self.c[sizes[j]][d + deltas[j]];
                    idx[j] = i % n;
                    i /= n;
                }
                for j in 0..sizes.len() {
                    children.push(self.unrank(sizes[j], d + deltas[j], idx[j]));
                }
                return build(*k, children);
            }
        }
        panic!("unrank: index out of range");
    }
}

// -------------------------------------------------------------------------------------------------
// transformations (all on levels)

/// every variable level >= cutoff is shifted by one (a binder is inserted at level `cutoff`)
fn shift(t: &T, cutoff: usize) -> T {
    use T::*;
    let b = |x: &T| Box::new(shift(x, cutoff));
    match t {
        Var(l) => Var(if *l >= cutoff { l + 1 } else { *l }),
        Atom(a) => Atom(*a),
        Lam(a) => Lam(b(a)),
        App(x, y) => App(b(x), b(y)),
        Let(x, y) => Let(b(x), b(y)),
        LetF(x, y) => LetF(b(x), b(y)),
        LetRec(x, y) => LetRec(b(x), b(y)),
        If(x, y, z) => If(b(x), b(y), b(z)),
        Rec(fs) => Rec(fs.iter().map(|(l, e)| (*l, shift(e, cutoff))).collect()),
        Proj(x, l) => Proj(b(x), l),
        Tup(x, y) => Tup(b(x), b(y)),
        Arr(xs) => Arr(xs.iter().map(|e| shift(e, cutoff)).collect()),
        MatchO(x, y, z) => MatchO(b(x), b(y), b(z)),
        MatchV(x, y, z) => MatchV(b(x), b(y), b(z)),
        MatchT(x, y) => MatchT(b(x), b(y)),
    }
}

/// Inserts `let u = <the variable just bound> in ..` at the start of the scope of every binder.
/// `d` = number of variables in scope of `t`.
fn unused_everywhere(t: &T, d: usize) -> T {
    use T::*;
    // body has `d2` variables in scope, the newest one is d2-1
    let wrap = |body: &T, d2: usize| -> T {
        let inner = unused_everywhere(body, d2);
        Let(Box::new(Var(d2 - 1)), Box::new(shift(&inner, d2)))
    };
    let r = |x: &T| Box::new(unused_everywhere(x, d));
    match t {
        Var(_) | Atom(_) => t.clone(),
        Lam(a) => Lam(Box::new(wrap(a, d + 1))),
        App(x, y) => App(r(x), r(y)),
        Let(x, y) => Let(r(x), Box::new(wrap(y, d + 1))),
        LetF(x, y) => LetF(Box::new(wrap(x, d + 1)), Box::new(wrap(y, d + 1))),
        LetRec(x, y) => LetRec(Box::new(wrap(x, d + 2)), Box::new(wrap(y, d + 1))),
        If(x, y, z) => If(r(x), r(y), r(z)),
        Rec(fs) => Rec(fs.iter().map(|(l, e)| (*l, unused_everywhere(e, d))).collect()),
        Proj(x, l) => Proj(r(x), l),
        Tup(x, y) => Tup(r(x), r(y)),
        Arr(xs) => Arr(xs.iter().map(|e| unused_everywhere(e, d)).collect()),
        MatchO(x, y, z) => MatchO(r(x), r(y), Box::new(wrap(z, d + 1))),
        MatchV(x, y, z) => MatchV(r(x), r(y), Box::new(wrap(z, d + 1))),
        MatchT(x, y) => MatchT(r(x), Box::new(wrap(y, d + 2))),
    }
}

/// levels of variables occurring free in `t` that are < d
fn free_levels(t: &T, d: usize, out: &mut HashSet<usize>) {
    t.any(&mut |x| {
        if let T::Var(l) = x {
            if *l < d {
                out.insert(*l);
            }
        }
        false
    });
}

// =================================================================================================
// printer

#[derive(Clone, Copy, Debug, PartialEq, Eq)]
pub enum Naming {
    /// kind letter + stack position: never shadows
    Base,
    /// the smallest `s<k>` not naming an outer binder that is still referenced in the scope
    Shadow,
}

#[derive(Clone, Copy, PartialEq, Eq)]
enum Ctx {
    Open,
    Rhs,
    Closed,
    Atomic,
}

pub struct Printer<'a> {
    pub s: String,
    naming: Naming,
    names: Vec<String>,
    /// type annotation for the i-th let (pre-order), if any
    annots: Option<&'a [Option<String>]>,
    lets_seen: usize,
    /// names of let-bound identifiers in pre-order
    pub let_names: Vec<String>,
}

fn column(s: &str) -> usize {
    match s.rfind('\n') {
        Some(i) => s.len() - i - 1,
        None => s.len(),
    }
}

impl<'a> Printer<'a> {
    /// `pos` = the stack position the binder will occupy in its scope
    fn pick(&self, kind: &str, pos: usize, bodies: &[(&T, usize)], taken_extra: &[String]) -> String {
        match self.naming {
            Naming::Base => format!("{}{}", kind, pos),
            Naming::Shadow => {
                let mut taken: HashSet<String> = taken_extra.iter().cloned().collect();
                for (b, d) in bodies {
                    let mut fl = HashSet::new();
                    free_levels(b, (*d).min(self.names.len()), &mut fl);
                    for l in fl {
                        taken.insert(self.names[l].clone());
                    }
                }
                let mut k = 0;
                loop {
                    let n = format!("s{}", k);
                    if !taken.contains(&n) {
                        return n;
                    }
                    k += 1;
                }
            }
        }
    }
    fn annot(&mut self) -> Option<String> {
        let i = self.lets_seen;
        self.lets_seen += 1;
        self.annots.and_then(|a| a.get(i).cloned().flatten())
    }
    fn paren(&mut self, t: &T) {
        self.s.push('(');
        self.go(t, Ctx::Open);
        self.s.push(')');
    }
    fn go(&mut self, t: &T, ctx: Ctx) {
        use T::*;
        let d = self.names.len();
        match t {
            Var(l) => {
                let n = self.names[*l].clone();
                self.s.push_str(&n)
            }
            Atom(a) => self.s.push_str(match a {
                self::Atom::Int => "1",
                self::Atom::Str => "\"s\"",
                self::Atom::True => "True",
                self::Atom::False => "False",
                self::Atom::Unit => "()",
                self::Atom::N => "N",
                self::Atom::S => "S",
                self::Atom::A => "A",
                self::Atom::B => "B",
                self::Atom::EmptyArr => "[]",
            }),
            Lam(b) => {
                if ctx == Ctx::Closed || ctx == Ctx::Atomic {
                    return self.paren(t);
                }
                let x = self.pick("x", d, &[(b, d)], &[]);
                write!(self.s, "\\{} -> ", x).unwrap();
                self.names.push(x);
                self.go(b, Ctx::Open);
                self.names.pop();
            }
            App(f, a) => {
                if ctx == Ctx::Atomic {
                    return self.paren(t);
                }
                match &**f {
                    App(..) => self.go(f, Ctx::Closed),
                    _ => self.go(f, Ctx::Atomic),
                }
                self.s.push(' ');
                self.go(a, Ctx::Atomic);
            }
            Let(e1, e2) => {
                if ctx != Ctx::Open {
                    return self.paren(t);
                }
                let ann = self.annot();
                let v = self.pick("v", d, &[(e2, d)], &[]);
                self.let_names.push(v.clone());
                write!(self.s, "let {}", v).unwrap();
                if let Some(a) = ann {
                    write!(self.s, " : {}", a).unwrap();
                }
                self.s.push_str(" = ");
                self.go(e1, Ctx::Rhs);
                self.s.push_str(" in ");
                self.names.push(v);
                self.go(e2, Ctx::Open);
                self.names.pop();
            }
            LetF(e1, e2) => {
                if ctx != Ctx::Open {
                    return self.paren(t);
                }
                let ann = self.annot();
                // gluon treats a `let` with arguments as recursive (`ValueBindings::is_recursive`), so f
                // must not capture anything referenced in e1 either
                let f = self.pick("f", d, &[(e1, d), (e2, d)], &[]);
                // the parameter must not capture anything referenced in e1 and must differ from f
                let x = self.pick("x", d, &[(e1, d)], &[f.clone()]);
                self.let_names.push(f.clone());
                write!(self.s, "let {} {}", f, x).unwrap();
                if let Some(a) = ann {
                    write!(self.s, " : {}", a).unwrap();
                }
                self.s.push_str(" = ");
                self.names.push(x);
                self.go(e1, Ctx::Rhs);
                self.names.pop();
                self.s.push_str(" in ");
                self.names.push(f);
                self.go(e2, Ctx::Open);
                self.names.pop();
            }
            LetRec(e1, e2) => {
                if ctx != Ctx::Open {
                    return self.paren(t);
                }
                let ann = self.annot();
                let f = self.pick("f", d, &[(e1, d), (e2, d)], &[]);
                let x = self.pick("x", d + 1, &[(e1, d)], &[f.clone()]);
                self.let_names.push(f.clone());
                write!(self.s, "rec let {} {}", f, x).unwrap();
                if let Some(a) = ann {
                    write!(self.s, " : {}", a).unwrap();
                }
                self.s.push_str(" = ");
                self.names.push(f.clone());
                self.names.push(x);
                self.go(e1, Ctx::Rhs);
                self.names.pop();
                self.s.push_str(" in ");
                self.go(e2, Ctx::Open);
                self.names.pop();
            }
            If(c, a, b) => {
                if ctx == Ctx::Closed || ctx == Ctx::Atomic {
                    return self.paren(t);
                }
                self.s.push_str("if ");
                self.go(c, Ctx::Atomic);
                self.s.push_str(" then ");
                self.go(a, Ctx::Closed);
                self.s.push_str(" else ");
                self.go(b, Ctx::Closed);
            }
            Rec(fs) => {
                self.s.push_str("{ ");
                for (i, (l, e)) in fs.iter().enumerate() {
                    if i > 0 {
                        self.s.push_str(", ");
                    }
                    write!(self.s, "{} = ", l).unwrap();
                    self.go(e, Ctx::Closed);
                }
                self.s.push_str(" }");
            }
            Proj(e, l) => {
                match &**e {
                    Var(_) => self.go(e, Ctx::Atomic),
                    _ => self.paren(e),
                }
                write!(self.s, ".{}", l).unwrap();
            }
            Tup(a, b) => {
                self.s.push('(');
                self.go(a, Ctx::Closed);
                self.s.push_str(", ");
                self.go(b, Ctx::Closed);
                self.s.push(')');
            }
            Arr(xs) => {
                self.s.push('[');
                for (i, e) in xs.iter().enumerate() {
                    if i > 0 {
                        self.s.push_str(", ");
                    }
                    self.go(e, Ctx::Closed);
                }
                self.s.push(']');
            }
            MatchO(e, a, b) | MatchV(e, a, b) => {
                let (c0, c1) = if matches!(t, MatchO(..)) { ("N", "S") } else { ("A", "B") };
                // every alternative on its own line, `|` one column right of the opening parenthesis
                let col = column(&self.s) + 1;
                self.s.push_str("(match ");
                self.go(e, Ctx::Atomic);
                self.s.push_str(" with\n");
                self.s.extend(std::iter::repeat(' ').take(col));
                write!(self.s, "| {} -> ", c0).unwrap();
                self.go(a, Ctx::Atomic);
                self.s.push('\n');
                self.s.extend(std::iter::repeat(' ').take(col));
                let m = self.pick("m", d, &[(b, d)], &[]);
                write!(self.s, "| {} {} -> ", c1, m).unwrap();
                self.names.push(m);
                self.go(b, Ctx::Atomic);
                self.names.pop();
                self.s.push(')');
            }
            MatchT(e, b) => {
                let col = column(&self.s) + 1;
                self.s.push_str("(match ");
                self.go(e, Ctx::Atomic);
                self.s.push_str(" with\n");
                self.s.extend(std::iter::repeat(' ').take(col));
                let p = self.pick("p", d, &[(b, d)], &[]);
                let q = self.pick("q", d + 1, &[(b, d)], &[p.clone()]);
                write!(self.s, "| ({}, {}) -> ", p, q).unwrap();
                self.names.push(p);
                self.names.push(q);
                self.go(b, Ctx::Atomic);
                self.names.pop();
                self.names.pop();
                self.s.push(')');
            }
        }
    }
}

pub const PRE_BOOL: &str = "let { Bool } = import! std.types\n";
pub const PRE_O: &str = "type O a = | N | S a\n";
pub const PRE_V: &str = "type V = | A | B Int\n";

pub fn preamble(t: &T) -> String {
    let mut s = String::new();
    if t.any(&mut |x| matches!(x, T::Atom(Atom::True) | T::Atom(Atom::False) | T::If(..))) {
        s.push_str(PRE_BOOL);
    }
    if t.any(&mut |x| matches!(x, T::Atom(Atom::N) | T::Atom(Atom::S) | T::MatchO(..))) {
        s.push_str(PRE_O);
    }
    if t.any(&mut |x| matches!(x, T::Atom(Atom::A) | T::Atom(Atom::B) | T::MatchV(..))) {
        s.push_str(PRE_V);
    }
    s
}

/// Source of a closed term (without the preamble); also returns the let-bound names in pre-order.
pub fn print_term(t: &T, naming: Naming, annots: Option<&[Option<String>]>) -> (String, Vec<String>) {
    let mut p = Printer { s: String::new(), naming, names: Vec::new(), annots, lets_seen: 0, let_names: Vec::new() };
    p.go(t, Ctx::Open);
    (p.s, p.let_names)
}

// =================================================================================================
// normal form of types shared by both sides

/// Quantifier-free type; variables numbered by first occurrence (after sorting the fields of open
/// records by label). `Rec(fields, tail)`: tail None = closed (field order significant).
#[derive(Clone, Debug, PartialEq, Eq, Hash, PartialOrd, Ord, Serialize, Deserialize)]
pub enum N {
    Var(u32),
    Con(String, Vec<N>),
    Fun(Box<N>, Box<N>),
    Rec(Vec<(String, N)>, Option<u32>),
}

impl N {
    fn sort_open(&mut self) {
        match self {
            N::Var(_) => {}
            N::Con(_, xs) => xs.iter_mut().for_each(|x| x.sort_open()),
            N::Fun(a, b) => {
                a.sort_open();
                b.sort_open()
            }
            N::Rec(fs, tail) => {
                fs.iter_mut().for_each(|f| f.1.sort_open());
                if tail.is_some() {
                    fs.sort_by(|a, b| a.0.cmp(&b.0));
                }
            }
        }
    }
    fn renumber(&mut self, map: &mut HashMap<u32, u32>) {
        let get = |v: &mut u32, map: &mut HashMap<u32, u32>| {
            let n = map.len() as u32;
            *v = *map.entry(*v).or_insert(n);
        };
        match self {
            N::Var(v) => get(v, map),
            N::Con(_, xs) => xs.iter_mut().for_each(|x| x.renumber(map)),
            N::Fun(a, b) => {
                a.renumber(map);
                b.renumber(map)
            }
            N::Rec(fs, tail) => {
                fs.iter_mut().for_each(|f| f.1.renumber(map));
                if let Some(v) = tail {
                    get(v, map)
                }
            }
        }
    }
    pub fn canon(mut self) -> N {
        self.sort_open();
        self.renumber(&mut HashMap::new());
        self
    }
    /// classification aid: every record closed with its fields sorted
    pub fn relaxed(&self) -> N {
        fn go(n: &N) -> N {
            match n {
                N::Var(v) => N::Var(*v),
                N::Con(c, xs) => N::Con(c.clone(), xs.iter().map(go).collect()),
                N::Fun(a, b) => N::Fun(Box::new(go(a)), Box::new(go(b))),
                N::Rec(fs, _) => {
                    let mut fs: Vec<_> = fs.iter().map(|(l, t)| (l.clone(), go(t))).collect();
                    fs.sort_by(|a, b| a.0.cmp(&b.0));
                    N::Rec(fs, None)
                }
            }
        }
        go(self).canon()
    }
    pub fn has_var(&self) -> bool {
        match self {
            N::Var(_) => true,
            N::Con(_, xs) => xs.iter().any(|x| x.has_var()),
            N::Fun(a, b) => a.has_var() || b.has_var(),
            N::Rec(fs, t) => t.is_some() || fs.iter().any(|f| f.1.has_var()),
        }
    }
    pub fn has_record(&self) -> bool {
        match self {
            N::Var(_) => false,
            N::Con(_, xs) => xs.iter().any(|x| x.has_record()),
            N::Fun(a, b) => a.has_record() || b.has_record(),
            N::Rec(fs, _) => !fs.is_empty() && !fs.iter().all(|f| f.0.starts_with('_')) || fs.iter().any(|f| f.1.has_record()),
        }
    }
    pub fn has_open_row(&self) -> bool {
        match self {
            N::Var(_) => false,
            N::Con(_, xs) => xs.iter().any(|x| x.has_open_row()),
            N::Fun(a, b) => a.has_open_row() || b.has_open_row(),
            N::Rec(fs, t) => t.is_some() || fs.iter().any(|f| f.1.has_open_row()),
        }
    }
}

fn var_name(v: u32) -> String {
    if v < 26 {
        ((b'a' + v as u8) as char).to_string()
    } else {
        format!("t{}", v)
    }
}

impl std::fmt::Display for N {
    fn fmt(&self, f: &mut std::fmt::Formatter) -> std::fmt::Result {
        fn atom(n: &N) -> String {
            match n {
                N::Fun(..) => format!("({})", n),
                N::Con(_, xs) if !xs.is_empty() => format!("({})", n),
                _ => n.to_string(),
            }
        }
        match self {
            N::Var(v) => write!(f, "{}", var_name(*v)),
            N::Con(c, xs) => {
                write!(f, "{}", c)?;
                for x in xs {
                    write!(f, " {}", atom(x))?;
                }
                Ok(())
            }
            N::Fun(a, b) => {
                match &**a {
                    N::Fun(..) => write!(f, "({})", a)?,
                    _ => write!(f, "{}", a)?,
                }
                write!(f, " -> {}", b)
            }
            N::Rec(fs, tail) => {
                if fs.is_empty() && tail.is_none() {
                    return write!(f, "()");
                }
                let tuple = tail.is_none() && fs.len() >= 2 && fs.iter().enumerate().all(|(i, x)| x.0 == format!("_{}", i));
                if tuple {
                    write!(f, "(")?;
                    for (i, x) in fs.iter().enumerate() {
                        if i > 0 {
                            write!(f, ", ")?;
                        }
                        write!(f, "{}", x.1)?;
                    }
                    return write!(f, ")");
                }
                write!(f, "{{ ")?;
                for (i, x) in fs.iter().enumerate() {
                    if i > 0 {
                        write!(f, ", ")?;
                    }
                    write!(f, "{} : {}", x.0, x.1)?;
                }
                if let Some(t) = tail {
                    write!(f, " | {}", var_name(*t))?;
                }
                write!(f, " }}")
            }
        }
    }
}

// =================================================================================================
// independent algorithm W (substitution based)

pub mod algw {
    use super::{Atom, N, T};

    #[derive(Clone, Debug, PartialEq)]
    pub enum Ty {
        Var(u32),
        Con(&'static str, Vec<Ty>),
        Fun(Box<Ty>, Box<Ty>),
        Rec(Row),
    }
    /// `fields | tail`; a closed tail carries the label order of the WHOLE record it terminates
    #[derive(Clone, Debug, PartialEq)]
    pub struct Row {
        pub fields: Vec<(&'static str, Ty)>,
        pub tail: Tail,
    }
    #[derive(Clone, Debug, PartialEq)]
    pub enum Tail {
        Closed(Vec<&'static str>),
        Open(u32),
    }
    #[derive(Clone, Debug)]
    pub struct Scheme {
        tvars: Vec<u32>,
        rvars: Vec<u32>,
        ty: Ty,
    }

    #[derive(Debug, Clone, PartialEq)]
    pub enum Fail {
        Mismatch,
        Occurs,
        MissingField,
        FieldOrder,
    }

    #[derive(Default)]
    pub struct W {
        tsub: Vec<Option<Ty>>,
        rsub: Vec<Option<Row>>,
        /// scheme of every let-bound identifier, in pre-order of the let nodes
        lets: Vec<Option<Scheme>>,
        /// deliberately wrong rule used by the detection self-test
        pub sabotage: u32,
    }

    fn int() -> Ty {
        Ty::Con("Int", vec![])
    }
    fn boolean() -> Ty {
        Ty::Con("Bool", vec![])
    }
    fn closed(fields: Vec<(&'static str, Ty)>) -> Ty {
        let order = fields.iter().map(|f| f.0).collect();
        Ty::Rec(Row { fields, tail: Tail::Closed(order) })
    }

    impl W {
        fn fresh(&mut self) -> Ty {
            self.tsub.push(None);
            Ty::Var(self.tsub.len() as u32 - 1)
        }
        fn fresh_row(&mut self) -> u32 {
            self.rsub.push(None);
            self.rsub.len() as u32 - 1
        }
        /// fully applies the substitution
        pub fn zonk(&self, t: &Ty) -> Ty {
            match t {
                Ty::Var(v) => match &self.tsub[*v as usize] {
                    Some(b) => self.zonk(b),
                    None => Ty::Var(*v),
                },
                Ty::Con(c, xs) => Ty::Con(c, xs.iter().map(|x| self.zonk(x)).collect()),
                Ty::Fun(a, b) => Ty::Fun(Box::new(self.zonk(a)), Box::new(self.zonk(b))),
                Ty::Rec(r) => Ty::Rec(self.zonk_row(r)),
            }
        }
        fn zonk_row(&self, r: &Row) -> Row {
            let mut fields: Vec<(&'static str, Ty)> = r.fields.iter().map(|(l, t)| (*l, self.zonk(t))).collect();
            let mut tail = r.tail.clone();
            loop {
                match tail {
                    Tail::Open(v) => match &self.rsub[v as usize] {
                        Some(b) => {
                            fields.extend(b.fields.iter().map(|(l, t)| (*l, self.zonk(t))));
                            tail = b.tail.clone();
                        }
                        None => break,
                    },
                    Tail::Closed(_) => break,
                }
            }
            if let Tail::Closed(order) = &tail {
                fields.sort_by_key(|f| order.iter().position(|l| *l == f.0).unwrap_or(usize::MAX));
            }
            Row { fields, tail }
        }
        fn ftv(&self, t: &Ty, tv: &mut Vec<u32>, rv: &mut Vec<u32>) {
            match t {
                Ty::Var(v) => {
                    if !tv.contains(v) {
                        tv.push(*v)
                    }
                }
                Ty::Con(_, xs) => xs.iter().for_each(|x| self.ftv(x, tv, rv)),
                Ty::Fun(a, b) => {
                    self.ftv(a, tv, rv);
                    self.ftv(b, tv, rv)
                }
                Ty::Rec(r) => {
                    r.fields.iter().for_each(|f| self.ftv(&f.1, tv, rv));
                    if let Tail::Open(v) = r.tail {
                        if !rv.contains(&v) {
                            rv.push(v)
                        }
                    }
                }
            }
        }
        fn bind_t(&mut self, v: u32, t: Ty) -> Result<(), Fail> {
            let t = self.zonk(&t);
            if t == Ty::Var(v) {
                return Ok(());
            }
            let (mut tv, mut rv) = (vec![], vec![]);
            self.ftv(&t, &mut tv, &mut rv);
            if tv.contains(&v) {
                return Err(Fail::Occurs);
            }
            self.tsub[v as usize] = Some(t);
            Ok(())
        }
        fn bind_r(&mut self, v: u32, r: Row) -> Result<(), Fail> {
            let r = self.zonk_row(&r);
            if r.fields.is_empty() && r.tail == Tail::Open(v) {
                return Ok(());
            }
            let (mut tv, mut rv) = (vec![], vec![]);
            self.ftv(&Ty::Rec(r.clone()), &mut tv, &mut rv);
            if rv.contains(&v) {
                return Err(Fail::Occurs);
            }
            self.rsub[v as usize] = Some(r);
            Ok(())
        }
        pub fn unify(&mut self, a: &Ty, b: &Ty) -> Result<(), Fail> {
            let a = self.zonk(a);
            let b = self.zonk(b);
            match (&a, &b) {
                (Ty::Var(x), Ty::Var(y)) if x == y => Ok(()),
                (Ty::Var(x), _) => self.bind_t(*x, b.clone()),
                (_, Ty::Var(y)) => self.bind_t(*y, a.clone()),
                (Ty::Con(c, xs), Ty::Con(d, ys)) => {
                    if c != d || xs.len() != ys.len() {
                        return Err(Fail::Mismatch);
                    }
                    for (x, y) in xs.iter().zip(ys.iter()) {
                        self.unify(x, y)?;
                    }
                    Ok(())
                }
                (Ty::Fun(a1, r1), Ty::Fun(a2, r2)) => {
                    self.unify(a1, a2)?;
                    self.unify(r1, r2)
                }
                (Ty::Rec(r1), Ty::Rec(r2)) => self.unify_rows(r1, r2),
                _ => Err(Fail::Mismatch),
            }
        }
        /// both rows are zonked (flattened)
        fn unify_rows(&mut self, l: &Row, r: &Row) -> Result<(), Fail> {
            let mut only_l = vec![];
            let mut only_r = vec![];
            for (lab, t) in &l.fields {
                match r.fields.iter().find(|f| f.0 == *lab) {
                    Some((_, u)) => self.unify(t, u)?,
                    None => only_l.push((*lab, t.clone())),
                }
            }
            for (lab, t) in &r.fields {
                if !l.fields.iter().any(|f| f.0 == *lab) {
                    only_r.push((*lab, t.clone()));
                }
            }
            match (&l.tail, &r.tail) {
                (Tail::Closed(o1), Tail::Closed(o2)) => {
                    if !only_l.is_empty() || !only_r.is_empty() {
                        return Err(Fail::MissingField);
                    }
                    if o1 != o2 {
                        return Err(Fail::FieldOrder);
                    }
                    Ok(())
                }
                (Tail::Open(v), Tail::Closed(o)) => {
                    if !only_l.is_empty() {
                        return Err(Fail::MissingField);
                    }
                    if self.sabotage == 2 {
                        // wrong on purpose: leave the row open
                        let f = self.fresh_row();
                        return self.bind_r(*v, Row { fields: only_r, tail: Tail::Open(f) });
                    }
                    self.bind_r(*v, Row { fields: only_r, tail: Tail::Closed(o.clone()) })
                }
                (Tail::Closed(o), Tail::Open(v)) => {
                    if !only_r.is_empty() {
                        return Err(Fail::MissingField);
                    }
                    self.bind_r(*v, Row { fields: only_l, tail: Tail::Closed(o.clone()) })
                }
                (Tail::Open(v1), Tail::Open(v2)) => {
                    if v1 == v2 {
                        return if only_l.is_empty() && only_r.is_empty() { Ok(()) } else { Err(Fail::Occurs) };
                    }
                    if only_l.is_empty() && only_r.is_empty() {
                        return self.bind_r(*v1, Row { fields: vec![], tail: Tail::Open(*v2) });
                    }
                    let f = self.fresh_row();
                    self.bind_r(*v1, Row { fields: only_r, tail: Tail::Open(f) })?;
                    // v2 may have been reached through v1's new binding only if v1 occurred in only_l's
                    // types, which bind_r's occurs check on the zonked row rejects
                    let only_l: Vec<_> = only_l.iter().map(|(l, t)| (*l, self.zonk(t))).collect();
                    self.bind_r(*v2, Row { fields: only_l, tail: Tail::Open(f) })
                }
            }
        }
        fn instantiate(&mut self, s: &Scheme) -> Ty {
            let tmap: Vec<(u32, Ty)> = s.tvars.iter().map(|v| (*v, self.fresh())).collect();
            let rmap: Vec<(u32, u32)> = s.rvars.iter().map(|v| (*v, self.fresh_row())).collect();
            fn go(t: &Ty, tmap: &[(u32, Ty)], rmap: &[(u32, u32)]) -> Ty {
                match t {
                    Ty::Var(v) => tmap.iter().find(|x| x.0 == *v).map(|x| x.1.clone()).unwrap_or(Ty::Var(*v)),
                    Ty::Con(c, xs) => Ty::Con(c, xs.iter().map(|x| go(x, tmap, rmap)).collect()),
                    Ty::Fun(a, b) => Ty::Fun(Box::new(go(a, tmap, rmap)), Box::new(go(b, tmap, rmap))),
                    Ty::Rec(r) => Ty::Rec(Row {
                        fields: r.fields.iter().map(|(l, t)| (*l, go(t, tmap, rmap))).collect(),
                        tail: match &r.tail {
                            Tail::Open(v) => Tail::Open(rmap.iter().find(|x| x.0 == *v).map(|x| x.1).unwrap_or(*v)),
                            c => c.clone(),
                        },
                    }),
                }
            }
            go(&s.ty, &tmap, &rmap)
        }
        fn generalize(&self, env: &[Scheme], t: &Ty) -> Scheme {
            let t = self.zonk(t);
            let (mut tv, mut rv) = (vec![], vec![]);
            self.ftv(&t, &mut tv, &mut rv);
            let (mut etv, mut erv) = (vec![], vec![]);
            for s in env {
                let z = self.zonk(&s.ty);
                let (mut a, mut b) = (vec![], vec![]);
                self.ftv(&z, &mut a, &mut b);
                etv.extend(a.into_iter().filter(|v| !s.tvars.contains(v)));
                erv.extend(b.into_iter().filter(|v| !s.rvars.contains(v)));
            }
            tv.retain(|v| !etv.contains(v));
            rv.retain(|v| !erv.contains(v));
            if self.sabotage == 1 {
                // wrong on purpose: never generalise
                return Scheme { tvars: vec![], rvars: vec![], ty: t };
            }
            Scheme { tvars: tv, rvars: rv, ty: t }
        }
        fn mono(t: Ty) -> Scheme {
            Scheme { tvars: vec![], rvars: vec![], ty: t }
        }
        pub fn infer(&mut self, env: &mut Vec<Scheme>, t: &T) -> Result<Ty, Fail> {
            match t {
                T::Var(l) => {
                    let s = env[*l].clone();
                    Ok(self.instantiate(&s))
                }
                T::Atom(a) => Ok(match a {
                    Atom::Int => int(),
                    Atom::Str => Ty::Con("String", vec![]),
                    Atom::True | Atom::False => boolean(),
                    Atom::Unit => closed(vec![]),
                    Atom::N => Ty::Con("O", vec![self.fresh()]),
                    Atom::S => {
                        let a = self.fresh();
                        Ty::Fun(Box::new(a.clone()), Box::new(Ty::Con("O", vec![a])))
                    }
                    Atom::A => Ty::Con("V", vec![]),
                    Atom::B => Ty::Fun(Box::new(int()), Box::new(Ty::Con("V", vec![]))),
                    Atom::EmptyArr => Ty::Con("Array", vec![self.fresh()]),
                }),
                T::Lam(b) => {
                    let a = self.fresh();
                    env.push(Self::mono(a.clone()));
                    let r = self.infer(env, b);
                    env.pop();
                    Ok(Ty::Fun(Box::new(a), Box::new(r?)))
                }
                T::App(f, x) => {
                    let tf = self.infer(env, f)?;
                    let tx = self.infer(env, x)?;
                    let r = self.fresh();
                    self.unify(&tf, &Ty::Fun(Box::new(tx), Box::new(r.clone())))?;
                    Ok(r)
                }
                T::Let(e1, e2) => {
                    let slot = self.lets.len();
                    self.lets.push(None);
                    let t1 = self.infer(env, e1)?;
                    let s = self.generalize(env, &t1);
                    self.lets[slot] = Some(s.clone());
                    env.push(s);
                    let r = self.infer(env, e2);
                    env.pop();
                    r
                }
                T::LetF(e1, e2) => {
                    let slot = self.lets.len();
                    self.lets.push(None);
                    let a = self.fresh();
                    env.push(Self::mono(a.clone()));
                    let r1 = self.infer(env, e1);
                    env.pop();
                    let tf = Ty::Fun(Box::new(a), Box::new(r1?));
                    let s = self.generalize(env, &tf);
                    self.lets[slot] = Some(s.clone());
                    env.push(s);
                    let r = self.infer(env, e2);
                    env.pop();
                    r
                }
                T::LetRec(e1, e2) => {
                    let slot = self.lets.len();
                    self.lets.push(None);
                    let f = self.fresh();
                    let a = self.fresh();
                    env.push(Self::mono(f.clone()));
                    env.push(Self::mono(a.clone()));
                    let r1 = self.infer(env, e1);
                    env.pop();
                    env.pop();
                    let tf = Ty::Fun(Box::new(a), Box::new(r1?));
                    self.unify(&f, &tf)?;
                    let s = self.generalize(env, &tf);
                    self.lets[slot] = Some(s.clone());
                    env.push(s);
                    let r = self.infer(env, e2);
                    env.pop();
                    r
                }
                T::If(c, a, b) => {
                    let tc = self.infer(env, c)?;
                    self.unify(&tc, &boolean())?;
                    let ta = self.infer(env, a)?;
                    let tb = self.infer(env, b)?;
                    self.unify(&ta, &tb)?;
                    Ok(ta)
                }
                T::Rec(fs) => {
                    let mut out = vec![];
                    for (l, e) in fs {
                        out.push((*l, self.infer(env, e)?));
                    }
                    Ok(closed(out))
                }
                T::Proj(e, l) => {
                    let te = self.infer(env, e)?;
                    let a = self.fresh();
                    let r = self.fresh_row();
                    self.unify(&te, &Ty::Rec(Row { fields: vec![(*l, a.clone())], tail: Tail::Open(r) }))?;
                    Ok(a)
                }
                T::Tup(a, b) => {
                    let ta = self.infer(env, a)?;
                    let tb = self.infer(env, b)?;
                    Ok(closed(vec![("_0", ta), ("_1", tb)]))
                }
                T::Arr(xs) => {
                    let a = self.fresh();
                    for x in xs {
                        let tx = self.infer(env, x)?;
                        self.unify(&a, &tx)?;
                    }
                    Ok(Ty::Con("Array", vec![a]))
                }
                T::MatchO(e, a, b) => {
                    let te = self.infer(env, e)?;
                    let el = self.fresh();
                    self.unify(&te, &Ty::Con("O", vec![el.clone()]))?;
                    let ta = self.infer(env, a)?;
                    env.push(Self::mono(el));
                    let tb = self.infer(env, b);
                    env.pop();
                    self.unify(&ta, &tb?)?;
                    Ok(ta)
                }
                T::MatchV(e, a, b) => {
                    let te = self.infer(env, e)?;
                    self.unify(&te, &Ty::Con("V", vec![]))?;
                    let ta = self.infer(env, a)?;
                    env.push(Self::mono(int()));
                    let tb = self.infer(env, b);
                    env.pop();
                    self.unify(&ta, &tb?)?;
                    Ok(ta)
                }
                T::MatchT(e, b) => {
                    let te = self.infer(env, e)?;
                    let p = self.fresh();
                    let q = self.fresh();
                    self.unify(&te, &closed(vec![("_0", p.clone()), ("_1", q.clone())]))?;
                    env.push(Self::mono(p));
                    env.push(Self::mono(q));
                    let r = self.infer(env, b);
                    env.pop();
                    env.pop();
                    r
                }
            }
        }
        fn to_n(&self, t: &Ty) -> N {
            match t {
                Ty::Var(v) => N::Var(*v * 2),
                Ty::Con(c, xs) => N::Con(c.to_string(), xs.iter().map(|x| self.to_n(x)).collect()),
                Ty::Fun(a, b) => N::Fun(Box::new(self.to_n(a)), Box::new(self.to_n(b))),
                Ty::Rec(r) => N::Rec(
                    r.fields.iter().map(|(l, t)| (l.to_string(), self.to_n(t))).collect(),
                    match r.tail {
                        Tail::Open(v) => Some(v * 2 + 1),
                        Tail::Closed(_) => None,
                    },
                ),
            }
        }
    }

    /// principal type of a closed term, or why it has none
    pub fn principal(t: &T, sabotage: u32) -> Result<N, Fail> {
        principal_with_lets(t, sabotage).map(|x| x.0)
    }

    /// ... and, for every let in pre-order, the type of the bound identifier if it is closed at the end
    /// of inference (all its variables quantified at the binding): only such a type can be written as
    /// an annotation
    pub fn principal_with_lets(t: &T, sabotage: u32) -> Result<(N, Vec<Option<N>>), Fail> {
        let mut w = W::default();
        w.sabotage = sabotage;
        let ty = w.infer(&mut Vec::new(), t)?;
        let z = w.zonk(&ty);
        let closed = w
            .lets
            .iter()
            .map(|s| match s {
                None => None,
                Some(s) => {
                    let z = w.zonk(&s.ty);
                    let (mut tv, mut rv) = (vec![], vec![]);
                    w.ftv(&z, &mut tv, &mut rv);
                    if tv.iter().all(|v| s.tvars.contains(v)) && rv.iter().all(|v| s.rvars.contains(v)) {
                        Some(w.to_n(&z).canon())
                    } else {
                        None
                    }
                }
            })
            .collect();
        Ok((w.to_n(&z).canon(), closed))
    }
}

// =================================================================================================
// gluon's reported type -> normal form (structural walk of the ArcType)

struct Walk {
    /// innermost last
    scope: Vec<(Symbol, u32)>,
    free: HashMap<String, u32>,
    next: u32,
    /// things outside the fragment that were met (makes the case a machinery error, not a verdict)
    pub odd: Vec<String>,
    pub expanded_alias: bool,
}

fn short(name: &str) -> String {
    name.rsplit('.').next().unwrap_or(name).to_string()
}

impl Walk {
    fn tok(&mut self) -> u32 {
        self.next += 1;
        self.next - 1
    }
    fn free_var(&mut self, key: String) -> u32 {
        if let Some(v) = self.free.get(&key) {
            return *v;
        }
        let t = self.tok();
        self.free.insert(key, t);
        t
    }
    fn var_of(&mut self, t: &ArcType) -> Option<u32> {
        match &**t {
            Type::Generic(g) => Some(match self.scope.iter().rev().find(|x| x.0 == g.id) {
                Some(x) => x.1,
                None => self.free_var(format!("g:{}", g.id.as_str())),
            }),
            Type::Variable(v) => Some(self.free_var(format!("v:{}", v.id))),
            Type::Skolem(s) => Some(self.free_var(format!("s:{}:{}", s.name.as_str(), s.id))),
            _ => None,
        }
    }
    fn go(&mut self, t: &ArcType) -> N {
        if let Some((arg_type, a, r)) = t.as_function_with_type() {
            if arg_type != ArgType::Explicit {
                self.odd.push(format!("non-explicit function argument in {}", t));
            }
            let a = self.go(a);
            let r = self.go(r);
            return N::Fun(Box::new(a), Box::new(r));
        }
        if let Some(v) = self.var_of(t) {
            return N::Var(v);
        }
        match &**t {
            Type::Forall(params, body) => {
                let n = self.scope.len();
                for p in params.iter() {
                    let tk = self.tok();
                    self.scope.push((p.id.clone(), tk));
                }
                let r = self.go(body);
                self.scope.truncate(n);
                r
            }
            Type::Builtin(b) => N::Con(
                match b {
                    BuiltinType::Int => "Int".into(),
                    BuiltinType::String => "String".into(),
                    BuiltinType::Array => "Array".into(),
                    other => {
                        self.odd.push(format!("builtin {:?}", other));
                        format!("{:?}", other)
                    }
                },
                vec![],
            ),
            Type::App(f, args) => {
                let head = self.go(f);
                let mut rest: Vec<N> = args.iter().map(|a| self.go(a)).collect();
                match head {
                    N::Con(c, mut xs) => {
                        xs.append(&mut rest);
                        N::Con(c, xs)
                    }
                    other => {
                        self.odd.push(format!("application of {}", other));
                        N::Con("?app".into(), rest)
                    }
                }
            }
            Type::Alias(a) => N::Con(short(a.name.declared_name()), vec![]),
            Type::Ident(id) => N::Con(short(id.name.declared_name()), vec![]),
            Type::Record(row) => {
                let mut fields = vec![];
                let mut it = row_iter(row);
                for f in it.by_ref() {
                    fields.push((f.name.declared_name().to_string(), f.typ.clone()));
                }
                let rest = it.current_type().clone();
                if row.type_field_iter().next().is_some() {
                    self.odd.push(format!("type fields in {}", t));
                }
                let fields: Vec<(String, N)> = fields.into_iter().map(|(l, ty)| (l, self.go(&ty))).collect();
                let tail = match &*rest {
                    Type::EmptyRow => None,
                    _ => match self.var_of(&rest) {
                        Some(v) => Some(v),
                        None => {
                            self.odd.push(format!("row tail {}", rest));
                            None
                        }
                    },
                };
                N::Rec(fields, tail)
            }
            Type::Variant(row) => {
                // an expanded alias of one of the declared variant types
                self.expanded_alias = true;
                let ctors: Vec<(String, ArcType)> =
                    row_iter(row).map(|f| (f.name.declared_name().to_string(), f.typ.clone())).collect();
                let names: Vec<&str> = ctors.iter().map(|c| c.0.as_str()).collect();
                match names.as_slice() {
                    ["N", "S"] => {
                        let arg = gluon::base::types::arg_iter(&ctors[1].1).next().cloned();
                        match arg {
                            Some(a) => N::Con("O".into(), vec![self.go(&a)]),
                            None => {
                                self.odd.push(format!("variant {}", t));
                                N::Con("?variant".into(), vec![])
                            }
                        }
                    }
                    ["A", "B"] => N::Con("V".into(), vec![]),
                    ["False", "True"] => N::Con("Bool".into(), vec![]),
                    _ => {
                        self.odd.push(format!("variant {}", t));
                        N::Con("?variant".into(), vec![])
                    }
                }
            }
            other => {
                let _ = other;
                self.odd.push(format!("type node outside the fragment: {}", t));
                N::Con("?".into(), vec![])
            }
        }
    }
}

/// Normal form of a type reported by gluon, plus notes about anything unexpected in it.
pub fn normalise(t: &ArcType) -> (N, Vec<String>, bool) {
    let mut w = Walk { scope: vec![], free: HashMap::new(), next: 0, odd: vec![], expanded_alias: false };
    let n = w.go(t).canon();
    (n, w.odd, w.expanded_alias)
}

/// Is the type closed (every Generic bound by a forall inside it, no unification variables)?
fn is_closed_type(t: &ArcType) -> bool {
    let mut w = Walk { scope: vec![], free: HashMap::new(), next: 0, odd: vec![], expanded_alias: false };
    let _ = w.go(t);
    w.free.is_empty() && w.odd.is_empty()
}

/// gluon's own rendering of a type, with the module qualifiers of the three declared types removed so
/// that it can be written back into the program
fn printable(t: &ArcType) -> String {
    t.to_string().replace("main.", "").replace("std.types.", "")
}

// =================================================================================================
// driving gluon. The checker can overflow the native stack on ill-typed terms of this fragment
// (occurs check through an alias application, e.g. `[\x -> x, S]`), which kills the process, so every
// checker run happens in a child process (`gv worker c03`, protocol of `isolate::worker_loop`).

#[derive(Clone, Debug, PartialEq, Eq, Serialize, Deserialize)]
pub enum Verdict {
    /// accepted with this normal form
    Ok(N),
    Parse(String),
    Typecheck(String),
    Other(String),
    /// the child process died (signal / exit status and tail of stderr) or hung
    Crashed(String),
}

impl Verdict {
    pub fn brief(&self) -> String {
        match self {
            Verdict::Ok(n) => format!("accepted : {}", n),
            Verdict::Parse(m) => format!("PARSE ERROR {}", m),
            Verdict::Typecheck(m) => format!("rejected ({})", m),
            Verdict::Other(m) => format!("failed ({})", m),
            Verdict::Crashed(m) => format!("checker process died ({})", m),
        }
    }
    fn class(&self) -> &'static str {
        match self {
            Verdict::Ok(_) => "accepted",
            Verdict::Parse(_) => "parse-error",
            Verdict::Typecheck(_) => "rejected",
            Verdict::Other(_) => "other-failure",
            Verdict::Crashed(_) => "checker-crash",
        }
    }
}

#[derive(Clone, Debug, Serialize, Deserialize)]
pub struct Req {
    pub src: String,
    pub lets: bool,
    pub fresh: bool,
}

#[derive(Clone, Debug, Serialize, Deserialize)]
pub struct Checked {
    pub verdict: Verdict,
    pub odd: Vec<String>,
    pub expanded_alias: bool,
    /// printable whole-program type
    pub printed: Option<String>,
    /// (name, printable type if closed, its normal form) of every identifier-pattern let in source order
    pub lets: Vec<(String, Option<String>, N)>,
}

impl Checked {
    fn crashed(why: String) -> Checked {
        Checked { verdict: Verdict::Crashed(why), odd: vec![], expanded_alias: false, printed: None, lets: vec![] }
    }
}

struct LetCollector {
    out: Vec<(String, Option<String>, N)>,
}
impl<'a, 'ast> Visitor<'a, 'ast> for LetCollector {
    type Ident = Symbol;
    fn visit_expr(&mut self, e: &'a SpannedExpr<'ast, Symbol>) {
        if let Expr::LetBindings(binds, _) = &e.value {
            for b in binds.iter() {
                if let Pattern::Ident(id) = &b.name.value {
                    // the binder's type carries the quantifiers (`resolved_type` is the body's type)
                    let ty = &id.typ;
                    let p = if is_closed_type(ty) { Some(printable(ty)) } else { None };
                    self.out.push((id.name.declared_name().to_string(), p, normalise(ty).0));
                }
            }
        }
        ast::walk_expr(self, e);
    }
}

pub fn first_lines(s: &str, n: usize) -> String {
    s.lines().filter(|l| !l.trim().is_empty()).take(n).collect::<Vec<_>>().join(" / ")
}

/// One checker run in THIS process.
pub fn check_src(vm: &RootedThread, src: &str, want_lets: bool) -> Checked {
    let r = std::panic::catch_unwind(std::panic::AssertUnwindSafe(|| vm.typecheck_str("main", src, None)));
    let mut c = Checked { verdict: Verdict::Other(String::new()), odd: vec![], expanded_alias: false, printed: None, lets: vec![] };
    match r {
        Err(p) => {
            c.verdict = Verdict::Other(format!("host panic: {} @ {}", vmkit::panic_message(&p), vmkit::last_panic_loc()));
        }
        Ok(Ok((expr, typ))) => {
            let (n, odd, exp) = normalise(&typ);
            c.verdict = Verdict::Ok(n);
            c.odd = odd;
            c.expanded_alias = exp;
            c.printed = Some(printable(&typ));
            if want_lets {
                let mut v = LetCollector { out: vec![] };
                v.visit_expr(expr.expr());
                c.lets = v.out;
            }
        }
        Ok(Err(e)) => {
            let (k, _) = vmkit::classify_error(&e);
            let msg = first_lines(&e.to_string(), 3);
            c.verdict = match k {
                vmkit::ErrKind::Parse => Verdict::Parse(msg),
                vmkit::ErrKind::Typecheck => Verdict::Typecheck(msg),
                _ => Verdict::Other(format!("{:?}: {}", k, msg)),
            };
        }
    }
    c
}

thread_local! {
    static CHILD_VM: std::cell::RefCell<Option<(RootedThread, usize)>> = std::cell::RefCell::new(None);
}

/// Child side (`gv worker c03`): payload = JSON `Req`, answer = JSON `Checked`.
pub fn worker(payload: &str) -> String {
    let req: Req = match serde_json::from_str(payload) {
        Ok(r) => r,
        Err(e) => return serde_json::to_string(&Checked::crashed(format!("bad request: {}", e))).unwrap(),
    };
    let c = if req.fresh {
        check_src(&vmkit::make_vm(Settings::bare()), &req.src, req.lets)
    } else {
        CHILD_VM.with(|cell| {
            let mut g = cell.borrow_mut();
            let renew = match &*g {
                Some((_, uses)) => *uses >= 1000,
                None => true,
            };
            if renew {
                *g = Some((vmkit::make_vm(Settings::bare()), 0));
            }
            let (vm, uses) = g.as_mut().unwrap();
            *uses += 1;
            check_src(vm, &req.src, req.lets)
        })
    };
    serde_json::to_string(&c).unwrap()
}

/// Blocking line reader on the child's stdout with a timeout (poll), no helper thread.
struct LineReader {
    out: std::process::ChildStdout,
    buf: Vec<u8>,
    pos: usize,
}

enum Line {
    Text(String),
    Eof,
    Timeout,
}

impl LineReader {
    fn next(&mut self, timeout_ms: i32) -> Line {
        use std::io::Read;
        use std::os::unix::io::AsRawFd;
        loop {
            if let Some(i) = self.buf[self.pos..].iter().position(|b| *b == b'\n') {
                let line = String::from_utf8_lossy(&self.buf[self.pos..self.pos + i]).to_string();
                self.pos += i + 1;
                if self.pos == self.buf.len() {
                    self.buf.clear();
                    self.pos = 0;
                }
                return Line::Text(line);
            }
            let mut pfd = libc::pollfd { fd: self.out.as_raw_fd(), events: libc::POLLIN, revents: 0 };
            let r = unsafe { libc::poll(&mut pfd, 1, timeout_ms) };
            if r == 0 {
                return Line::Timeout;
            }
            if r < 0 {
                if std::io::Error::last_os_error().kind() == std::io::ErrorKind::Interrupted {
                    continue;
                }
                return Line::Eof;
            }
            let mut chunk = [0u8; 16384];
            match self.out.read(&mut chunk) {
                Ok(0) => return Line::Eof,
                Ok(n) => self.buf.extend_from_slice(&chunk[..n]),
                Err(e) if e.kind() == std::io::ErrorKind::Interrupted => continue,
                Err(_) => return Line::Eof,
            }
        }
    }
}

/// Parent side: one child process, pipelined requests, crash attribution to the first unanswered one.
pub struct Server {
    child: std::process::Child,
    stdin: Option<std::process::ChildStdin>,
    lines: LineReader,
    pub crashes: u64,
}

fn spawn_child() -> (std::process::Child, std::process::ChildStdin, LineReader) {
    use std::process::{Command, Stdio};
    let exe = std::env::current_exe().expect("current_exe");
    let mut child = Command::new(exe)
        .arg("worker")
        .arg("c03")
        .stdin(Stdio::piped())
        .stdout(Stdio::piped())
        .stderr(Stdio::piped())
        .spawn()
        .expect("spawn worker");
    let stdin = child.stdin.take().unwrap();
    let out = child.stdout.take().unwrap();
    (child, stdin, LineReader { out, buf: Vec::new(), pos: 0 })
}

fn describe_death(child: &mut std::process::Child) -> String {
    use std::io::Read;
    use std::os::unix::process::ExitStatusExt;
    let status = child.wait();
    let mut err = String::new();
    if let Some(mut e) = child.stderr.take() {
        let mut buf = Vec::new();
        let _ = e.read_to_end(&mut buf);
        let text = String::from_utf8_lossy(&buf).to_string();
        err = text.lines().filter(|l| !l.trim().is_empty()).rev().take(2).collect::<Vec<_>>().into_iter().rev().collect::<Vec<_>>().join(" | ");
    }
    // thread ids in the message are not stable
    let err: String = err.chars().filter(|c| !c.is_ascii_digit()).collect();
    match status {
        Ok(s) => match (s.code(), s.signal()) {
            (_, Some(sig)) => format!("signal {} :: {}", sig, err),
            (Some(c), _) => format!("exit code {} :: {}", c, err),
            _ => format!("unknown status :: {}", err),
        },
        Err(e) => format!("wait failed: {}", e),
    }
}

impl Server {
    pub fn new() -> Server {
        let (child, stdin, lines) = spawn_child();
        Server { child, stdin: Some(stdin), lines, crashes: 0 }
    }
    fn respawn(&mut self) {
        self.stdin = None;
        let _ = self.child.kill();
        let _ = self.child.wait();
        let (child, stdin, lines) = spawn_child();
        self.child = child;
        self.stdin = Some(stdin);
        self.lines = lines;
    }
    /// Answers in request order.
    pub fn batch(&mut self, reqs: &[Req]) -> Vec<Checked> {
        use std::io::Write;
        let mut out: Vec<Checked> = Vec::with_capacity(reqs.len());
        while out.len() < reqs.len() {
            // send a window of at most 24 KiB so that neither pipe can fill up
            let first = out.len();
            let mut last = first;
            let mut bytes = 0;
            let mut buf = String::new();
            while last < reqs.len() && (last == first || bytes < 24_000) {
                let line = format!("{}\t{}\n", last, serde_json::to_string(&serde_json::to_string(&reqs[last]).unwrap()).unwrap());
                bytes += line.len();
                buf.push_str(&line);
                last += 1;
            }
            let wrote = match self.stdin.as_mut() {
                Some(s) => s.write_all(buf.as_bytes()).is_ok() && s.flush().is_ok(),
                None => false,
            };
            let _ = wrote;
            // read answers for first..last
            while out.len() < last {
                let want = out.len();
                match self.lines.next(30_000) {
                    Line::Text(l) => {
                        if let Some(rest) = l.strip_prefix("E ") {
                            if let Some((i, res)) = rest.split_once('\t') {
                                if i.parse::<usize>().ok() == Some(want) {
                                    let inner: String = serde_json::from_str(res).unwrap_or_default();
                                    let c: Checked = serde_json::from_str(&inner)
                                        .unwrap_or_else(|e| Checked::crashed(format!("unreadable answer: {}", e)));
                                    out.push(c);
                                }
                            }
                        }
                    }
                    Line::Eof => {
                        let why = describe_death(&mut self.child);
                        self.crashes += 1;
                        out.push(Checked::crashed(why));
                        self.respawn();
                        break; // resend the rest of the window
                    }
                    Line::Timeout => {
                        self.crashes += 1;
                        out.push(Checked::crashed("no answer within 30 s (hang)".into()));
                        self.respawn();
                        break;
                    }
                }
            }
        }
        out
    }
}

impl Drop for Server {
    fn drop(&mut self) {
        self.stdin = None;
        let _ = self.child.kill();
        let _ = self.child.wait();
    }
}

// =================================================================================================
// the checks

pub fn one_line(s: &str) -> String {
    s.replace('\n', "\\n")
}

/// is `specific` a substitution instance of `general`? (only used to name violations)
fn instance_of(general: &N, specific: &N) -> bool {
    fn go(g: &N, s: &N, tv: &mut HashMap<u32, N>) -> bool {
        match (g, s) {
            (N::Var(v), _) => match tv.get(v) {
                Some(b) => b == s,
                None => {
                    tv.insert(*v, s.clone());
                    true
                }
            },
            (N::Con(c, xs), N::Con(d, ys)) => c == d && xs.len() == ys.len() && xs.iter().zip(ys).all(|(x, y)| go(x, y, tv)),
            (N::Fun(a, b), N::Fun(c, d)) => go(a, c, tv) && go(b, d, tv),
            (N::Rec(fs, None), N::Rec(gs, None)) => {
                fs.len() == gs.len() && fs.iter().zip(gs).all(|(f, g)| f.0 == g.0 && go(&f.1, &g.1, tv))
            }
            (N::Rec(_, None), N::Rec(_, Some(_))) => false,
            (N::Rec(fs, Some(r)), N::Rec(gs, tail)) => {
                for f in fs {
                    match gs.iter().find(|g| g.0 == f.0) {
                        Some(g) => {
                            if !go(&f.1, &g.1, tv) {
                                return false;
                            }
                        }
                        None => return false,
                    }
                }
                let rest: Vec<(String, N)> = gs.iter().filter(|g| !fs.iter().any(|f| f.0 == g.0)).cloned().collect();
                let bound = N::Rec(rest, *tail);
                match tv.get(&(*r + 1_000_000)) {
                    Some(b) => *b == bound,
                    None => {
                        tv.insert(*r + 1_000_000, bound);
                        true
                    }
                }
            }
            _ => false,
        }
    }
    go(general, specific, &mut HashMap::new())
}

/// where does the reported type differ from the expected one? (only used to name the violation)
fn diff_class(expected: &N, observed: &N) -> String {
    let d = diff_class_(expected, observed);
    if !d.is_empty() {
        return d;
    }
    match (instance_of(expected, observed), instance_of(observed, expected)) {
        (true, false) => "reported-type-less-general".into(),
        (false, true) => "reported-type-more-general".into(),
        (false, false) => "reported-type-incomparable".into(),
        (true, true) => "reported-type-differs".into(),
    }
}

fn diff_class_(expected: &N, observed: &N) -> String {
    if expected.relaxed() == observed.relaxed() {
        let e_open = expected.has_open_row();
        let o_open = observed.has_open_row();
        return match (e_open, o_open) {
            (false, true) => "closed-record-reported-open".into(),
            (true, false) => "open-record-reported-closed".into(),
            (true, true) => "different-row-openness".into(),
            (false, false) => "record-field-order".into(),
        };
    }
    String::new()
}

#[derive(Clone, Debug)]
pub struct Finding {
    pub key: String,
    pub what: String,
    pub replay: Value,
}

#[derive(Default)]
pub struct Acc {
    pub terms: u64,
    pub gluon_calls: u64,
    pub w_typable: u64,
    pub gluon_accepted: u64,
    pub gluon_only: u64,
    pub nontrivial: u64,
    pub with_open_row: u64,
    pub base_crashed: u64,
    pub variant_crashed_base_rejected: u64,
    pub crash_kinds: BTreeMap<String, u64>,
    pub principal_types: HashSet<String>,
    pub variants: BTreeMap<&'static str, u64>,
    pub annot_lets_skipped_open: u64,
    pub annot_lets_annotated: u64,
    pub expanded_alias: u64,
    pub parse_errors: Vec<String>,
    pub machinery: Vec<String>,
    pub findings: Vec<Finding>,
    pub key_hist: BTreeMap<String, u64>,
    pub provisional: HashMap<String, u64>,
    pub samples: Vec<Value>,
    pub gluon_only_samples: Vec<String>,
    pub crash_samples: Vec<String>,
    pub binder_type_differs: u64,
    pub binder_type_samples: Vec<String>,
    /// (space, size) -> [terms, W-typable, accepted by gluon, checker crashed]
    pub per: BTreeMap<(&'static str, usize), [u64; 4]>,
    pub per_types: BTreeMap<(&'static str, usize), HashSet<String>>,
}

impl Acc {
    fn finding(&mut self, f: Finding) {
        let n = self.key_hist.entry(f.key.clone()).or_insert(0);
        *n += 1;
        if *n <= 3 && self.findings.len() < 400 {
            self.findings.push(f);
        }
    }
    fn note(&mut self, m: String) {
        if self.machinery.len() < 5 {
            self.machinery.push(m);
        }
    }
}

pub struct Variant {
    pub kind: &'static str,
    pub source: String,
}

/// the metamorphic variants of a term; `base` is gluon's result on the unmodified program
pub fn variants(t: &T, pre: &str, base: &Checked, let_names: &[String], w_closed: &[Option<N>], mut acc: Option<&mut Acc>) -> Vec<Variant> {
    let mut out = vec![];
    // (a term without binders has nothing to rename)
    if t.any(&mut |x| matches!(x, T::Lam(_) | T::Let(..) | T::LetF(..) | T::LetRec(..) | T::MatchO(..) | T::MatchV(..) | T::MatchT(..))) {
        out.push(Variant { kind: "alpha", source: format!("{}{}", pre, print_term(t, Naming::Shadow, None).0) });
    }
    let top = T::Let(Box::new(T::Lam(Box::new(T::Var(0)))), Box::new(shift(t, 0)));
    out.push(Variant { kind: "unused-top", source: format!("{}{}", pre, print_term(&top, Naming::Base, None).0) });
    if t.any(&mut |x| matches!(x, T::Lam(_) | T::Let(..) | T::LetF(..) | T::LetRec(..) | T::MatchO(..) | T::MatchV(..) | T::MatchT(..))) {
        let all = unused_everywhere(t, 0);
        out.push(Variant { kind: "unused-inner", source: format!("{}{}", pre, print_term(&all, Naming::Base, None).0) });
    }
    if let (Verdict::Ok(_), Some(printed)) = (&base.verdict, &base.printed) {
        let wrapped = T::Let(Box::new(t.clone()), Box::new(T::Var(0)));
        let mut ann: Vec<Option<String>> = vec![Some(printed.clone())];
        ann.extend(std::iter::repeat(None).take(let_names.len()));
        out.push(Variant { kind: "annot-top", source: format!("{}{}", pre, print_term(&wrapped, Naming::Base, Some(&ann)).0) });
        if !let_names.is_empty() {
            let names_match = base.lets.len() == let_names.len() && base.lets.iter().zip(let_names).all(|(a, b)| &a.0 == b);
            if names_match {
                // annotate where the reference inference says the binding's type is closed and the type
                // gluon recorded for the binder is that type (gluon's own text is inserted)
                let mut ann: Vec<Option<String>> = vec![];
                for (i, l) in base.lets.iter().enumerate() {
                    match w_closed.get(i).cloned().flatten() {
                        Some(wt) if l.1.is_some() => {
                            if wt == l.2 {
                                ann.push(l.1.clone());
                            } else {
                                ann.push(None);
                                if let Some(acc) = acc.as_deref_mut() {
                                    acc.binder_type_differs += 1;
                                    if acc.binder_type_samples.len() < 3 {
                                        acc.binder_type_samples.push(format!(
                                            "`{}`: binder {} recorded as `{}`, reference `{}`",
                                            one_line(&print_term(t, Naming::Base, None).0),
                                            l.0,
                                            l.1.clone().unwrap_or_default(),
                                            wt
                                        ));
                                    }
                                }
                            }
                        }
                        _ => ann.push(None),
                    }
                }
                let n_ann = ann.iter().filter(|a| a.is_some()).count();
                if let Some(acc) = acc.as_deref_mut() {
                    acc.annot_lets_annotated += n_ann as u64;
                    acc.annot_lets_skipped_open += (ann.len() - n_ann) as u64;
                }
                if n_ann > 0 {
                    out.push(Variant { kind: "annot-lets", source: format!("{}{}", pre, print_term(t, Naming::Base, Some(&ann)).0) });
                }
            } else if let Some(acc) = acc {
                acc.note(format!(
                    "let bindings of the typed AST {:?} do not line up with the printed ones {:?}",
                    base.lets.iter().map(|l| &l.0).collect::<Vec<_>>(),
                    let_names
                ));
            }
        }
    }
    out
}

/// verdict comparison for the differential checks; None = agree. A checker crash counts as a
/// rejection here (C03 promises nothing about HOW an ill-typed program is refused; crashes are C09's).
fn meta_disagreement(base: &Verdict, var: &Verdict) -> Option<String> {
    let rejected = |v: &Verdict| matches!(v, Verdict::Typecheck(_) | Verdict::Crashed(_));
    match (base, var) {
        (Verdict::Ok(a), Verdict::Ok(b)) => {
            if a == b {
                None
            } else {
                Some(format!("type-changed:{}", diff_class(a, b)))
            }
        }
        (a, b) if rejected(a) && rejected(b) => None,
        (a, b) => Some(format!("{}->{}", a.class(), b.class())),
    }
}

fn error_class(v: &Verdict) -> String {
    match v {
        Verdict::Typecheck(m) | Verdict::Other(m) | Verdict::Parse(m) | Verdict::Crashed(m) => {
            // identifiers, types and numbers are not part of the class: keep the message skeleton
            let mut lines = m.split(" / ");
            let first = lines.next().unwrap_or("");
            // ... without digits and without the quoted names
            let mut quoted = false;
            let mut first: String = first
                .chars()
                .filter(|c| {
                    if *c == '`' {
                        quoted = !quoted;
                        return false;
                    }
                    !quoted && !c.is_ascii_digit()
                })
                .take(80)
                .collect();
            if let Some(i) = first.find("would escape") {
                first.truncate(i + "would escape".len());
            }
            if first.contains("Expected the following types to be equal") {
                let exp = lines.next().unwrap_or("");
                let found = lines.next().unwrap_or("");
                if exp.trim_start().starts_with("Expected: forall") {
                    first.push_str(":expected-forall");
                } else if found.trim_start().starts_with("Found: forall") {
                    first.push_str(":found-forall");
                }
            }
            first
        }
        Verdict::Ok(_) => String::new(),
    }
}

pub fn sabotage() -> u32 {
    std::env::var("VERIF_C03_SABOTAGE").ok().and_then(|s| s.parse().ok()).unwrap_or(0)
}

fn principal_key(p: &N, v: &Verdict, src: &str) -> String {
    match v {
        Verdict::Ok(n) => {
            let _ = src;
            format!("c03:principal:{}", diff_class(p, n))
        }
        v => format!("c03:complete:{}:{}", v.class(), error_class(v)),
    }
}

/// `base`: how the unmodified program fared against W
fn meta_key(kind: &str, d: &str, var: &Verdict, base: &str) -> String {
    let mut key = format!("c03:{}:{}", kind, d);
    if !matches!(var, Verdict::Ok(_)) {
        key = format!("{}:{}", key, error_class(var));
    }
    format!("{}:base-{}", key, base)
}

fn base_status(w: &Result<(N, Vec<Option<N>>), algw::Fail>, base: &Verdict) -> String {
    match (w, base) {
        (Ok((p, _)), Verdict::Ok(n)) => {
            if p == n {
                "type-principal".into()
            } else {
                format!("type-not-principal({})", diff_class(p, n))
            }
        }
        (Ok(_), _) => "typable-by-W-only".into(),
        (Err(_), Verdict::Ok(_)) => "typable-by-gluon-only".into(),
        (Err(_), _) => "untypable".into(),
    }
}

/// how many cases of one (provisional) key each worker thread confirms on fresh VMs; further cases
/// with the same key are counted only
const CONFIRM_PER_KEY: u64 = 2;

struct Case {
    index: u64,
    t: T,
    pre: String,
    src: String,
    let_names: Vec<String>,
    w: Result<(N, Vec<Option<N>>), algw::Fail>,
}

/// which metamorphic variants are run on programs gluon rejects
#[derive(Clone, Copy, PartialEq, Eq)]
pub enum Policy {
    All,
    /// alpha-renaming only (quick tier, largest size)
    AlphaOnly,
}

fn dump() -> bool {
    std::env::var_os("VERIF_C03_DUMP").is_some()
}

fn req(src: &str, lets: bool, fresh: bool) -> Req {
    Req { src: src.to_string(), lets, fresh }
}

/// Checks the terms `indices` of size `size`.
pub fn check_terms(srv: &mut Server, acc: &mut Acc, space: &Space, size: usize, indices: std::ops::Range<u64>, policy: Policy) {
    let sab = sabotage();
    // ---- phase A: base programs
    let cases: Vec<Case> = indices
        .map(|index| {
            let t = space.unrank(size, 0, index);
            debug_assert!(space.is_fixed() || t.size() == size);
            let pre = preamble(&t);
            let (body, let_names) = print_term(&t, Naming::Base, None);
            let w = algw::principal_with_lets(&t, sab);
            Case { index, src: format!("{}{}", pre, body), pre, let_names, t, w }
        })
        .collect();
    let reqs: Vec<Req> = cases.iter().map(|c| req(&c.src, !c.let_names.is_empty(), false)).collect();
    let bases = srv.batch(&reqs);
    acc.gluon_calls += reqs.len() as u64;
    acc.terms += cases.len() as u64;
    {
        let key = (space.name, size);
        let e = acc.per.entry(key).or_insert([0; 4]);
        e[0] += cases.len() as u64;
        for (c, b) in cases.iter().zip(bases.iter()) {
            if let Ok((p, _)) = &c.w {
                e[1] += 1;
                acc.per_types.entry(key).or_default().insert(p.to_string());
            }
            match b.verdict {
                Verdict::Ok(_) => e[2] += 1,
                Verdict::Crashed(_) => e[3] += 1,
                _ => {}
            }
        }
    }

    // ---- oracle 1 and the variant requests
    let mut confirm: Vec<(usize, Req)> = vec![]; // case -> fresh re-run of the base program
    let mut vreqs: Vec<Req> = vec![];
    let mut vmeta: Vec<(usize, &'static str)> = vec![];
    for (ci, (c, base)) in cases.iter().zip(bases.iter()).enumerate() {
        if let Verdict::Parse(m) = &base.verdict {
            if acc.parse_errors.len() < 5 {
                acc.parse_errors.push(format!("{} :: {}", one_line(&c.src), m));
            }
            continue;
        }
        if !base.odd.is_empty() {
            acc.note(format!("reported type of `{}` has parts outside the fragment: {:?}", one_line(&c.src), base.odd));
        }
        if base.expanded_alias {
            acc.expanded_alias += 1;
        }
        let accepted = matches!(base.verdict, Verdict::Ok(_));
        if accepted {
            acc.gluon_accepted += 1;
        }
        if let Verdict::Crashed(why) = &base.verdict {
            acc.base_crashed += 1;
            *acc.crash_kinds.entry(why.clone()).or_insert(0) += 1;
            if acc.crash_samples.len() < 3 {
                acc.crash_samples.push(one_line(&c.src));
            }
        }
        match &c.w {
            Ok((p, _)) => {
                acc.w_typable += 1;
                let ps = p.to_string();
                let nontrivial = c.t.has_binder() && (p.has_var() || p.has_record());
                if nontrivial {
                    acc.nontrivial += 1;
                }
                if p.has_open_row() {
                    acc.with_open_row += 1;
                }
                if nontrivial && acc.samples.len() < 6 && (c.index % 7919 == 11 || size <= 3 && c.index % 37 == 0) {
                    acc.samples.push(json!({"size": size, "index": c.index, "source": c.src, "principal_type": ps,
                                            "gluon": base.verdict.brief()}));
                }
                acc.principal_types.insert(ps);
                let bad = match &base.verdict {
                    Verdict::Ok(n) => n != p,
                    _ => true,
                };
                if bad {
                    let key = principal_key(p, &base.verdict, &c.src);
                    if dump() {
                        eprintln!("DUMP {} :: W {} :: gluon {} :: {}", key, p, base.verdict.brief(), one_line(&c.src));
                    }
                    let n = acc.provisional.entry(key.clone()).or_insert(0);
                    *n += 1;
                    if *n <= CONFIRM_PER_KEY {
                        confirm.push((ci, req(&c.src, false, true)));
                    } else {
                        *acc.key_hist.entry(key).or_insert(0) += 1;
                    }
                }
            }
            Err(_) => {
                if accepted {
                    acc.gluon_only += 1;
                    if acc.gluon_only_samples.len() < 3 {
                        acc.gluon_only_samples.push(format!("{} => {}", one_line(&c.src), base.verdict.brief()));
                    }
                }
            }
        }
        match &base.verdict {
            Verdict::Ok(_) | Verdict::Typecheck(_) => {
                let closed: &[Option<N>] = match &c.w {
                    Ok((_, closed)) => closed,
                    Err(_) => &[],
                };
                for v in variants(&c.t, &c.pre, base, &c.let_names, closed, Some(acc)) {
                    if policy == Policy::AlphaOnly && !accepted && v.kind != "alpha" {
                        continue;
                    }
                    *acc.variants.entry(v.kind).or_insert(0) += 1;
                    vreqs.push(req(&v.source, false, false));
                    vmeta.push((ci, v.kind));
                }
            }
            Verdict::Crashed(_) => {} // counted; the variants of a crashing program are not run
            _ => {
                if c.w.is_err() {
                    // neither accepted nor rejected and W has no opinion: still never silent
                    confirm.push((ci, req(&c.src, false, true)));
                }
            }
        }
    }

    // ---- confirmations of oracle 1 on a fresh VM
    if !confirm.is_empty() {
        let rs = srv.batch(&confirm.iter().map(|x| x.1.clone()).collect::<Vec<_>>());
        acc.gluon_calls += rs.len() as u64;
        for ((ci, _), fresh) in confirm.iter().zip(rs.iter()) {
            let c = &cases[*ci];
            let base = &bases[*ci];
            match &c.w {
                Ok((p, _)) => {
                    let ps = p.to_string();
                    let still = match &fresh.verdict {
                        Verdict::Ok(n) => n != p,
                        _ => true,
                    };
                    if !still {
                        acc.note(format!("`{}`: {} on a long-lived VM but a fresh VM agrees with W ({})", one_line(&c.src), base.verdict.brief(), ps));
                        continue;
                    }
                    let key = principal_key(p, &fresh.verdict, &c.src);
                    let what = match &fresh.verdict {
                        Verdict::Ok(n) => format!("principal type `{}` but gluon reports `{}` for `{}`", ps, n, one_line(&c.src)),
                        v => format!("typable in HM (+rows) with principal type `{}` but gluon: {} for `{}`", ps, v.brief(), one_line(&c.src)),
                    };
                    acc.finding(Finding {
                        key,
                        what,
                        replay: json!({"engine": "c03", "kind": "principal", "space": space.name, "size": size, "index": c.index, "source": c.src,
                                       "expected": ps, "observed": fresh.verdict.brief()}),
                    });
                }
                Err(_) => {
                    if fresh.verdict.class() == base.verdict.class() {
                        acc.finding(Finding {
                            key: format!("c03:checker-failure:{}", error_class(&fresh.verdict)),
                            what: format!("the type checker neither accepts nor rejects `{}`: {}", one_line(&c.src), fresh.verdict.brief()),
                            replay: json!({"engine": "c03", "kind": "failure", "space": space.name, "size": size, "index": c.index, "source": c.src,
                                           "expected": "accepted or rejected", "observed": fresh.verdict.brief()}),
                        });
                    }
                }
            }
        }
    }

    // ---- oracle 2: metamorphic, differential on gluon itself
    let vres = srv.batch(&vreqs);
    acc.gluon_calls += vres.len() as u64;
    let mut confirm2: Vec<(usize, usize)> = vec![]; // (variant idx, position of its two fresh requests)
    let mut creqs: Vec<Req> = vec![];
    for (vi, got) in vres.iter().enumerate() {
        let (ci, kind) = vmeta[vi];
        if let Verdict::Parse(m) = &got.verdict {
            if acc.parse_errors.len() < 5 {
                acc.parse_errors.push(format!("[{}] {} :: {}", kind, one_line(&vreqs[vi].src), m));
            }
            continue;
        }
        if let Verdict::Crashed(why) = &got.verdict {
            *acc.crash_kinds.entry(why.clone()).or_insert(0) += 1;
            if matches!(bases[ci].verdict, Verdict::Typecheck(_)) {
                acc.variant_crashed_base_rejected += 1;
            }
        }
        if let Some(d) = meta_disagreement(&bases[ci].verdict, &got.verdict) {
            let key = meta_key(kind, &d, &got.verdict, &base_status(&cases[ci].w, &bases[ci].verdict));
            if dump() {
                eprintln!("DUMP {} :: base {} :: variant {} :: {} ==> {}", key, bases[ci].verdict.brief(), got.verdict.brief(), one_line(&cases[ci].src), one_line(&vreqs[vi].src));
            }
            let n = acc.provisional.entry(key.clone()).or_insert(0);
            *n += 1;
            if *n > CONFIRM_PER_KEY {
                *acc.key_hist.entry(key).or_insert(0) += 1;
                continue;
            }
            confirm2.push((vi, creqs.len()));
            creqs.push(req(&cases[ci].src, false, true));
            creqs.push(req(&vreqs[vi].src, false, true));
        }
    }
    if !creqs.is_empty() {
        let rs = srv.batch(&creqs);
        acc.gluon_calls += rs.len() as u64;
        for (vi, pos) in confirm2 {
            let (ci, kind) = vmeta[vi];
            let c = &cases[ci];
            let (fb, fv) = (&rs[pos], &rs[pos + 1]);
            match meta_disagreement(&fb.verdict, &fv.verdict) {
                None => acc.note(format!("[{}] `{}` vs `{}` disagree only on a long-lived VM", kind, one_line(&c.src), one_line(&vreqs[vi].src))),
                Some(d) => {
                    let key = meta_key(kind, &d, &fv.verdict, &base_status(&c.w, &fb.verdict));
                    acc.finding(Finding {
                        key,
                        what: format!(
                            "[{}] `{}` is {} but the variant `{}` is {}",
                            kind,
                            one_line(&c.src),
                            fb.verdict.brief(),
                            one_line(&vreqs[vi].src),
                            fv.verdict.brief()
                        ),
                        replay: json!({"engine": "c03", "kind": kind, "space": space.name, "size": size, "index": c.index, "source": c.src,
                                       "variant_source": vreqs[vi].src, "expected": fb.verdict.brief(), "observed": fv.verdict.brief()}),
                    });
                }
            }
        }
    }
}

// =================================================================================================
// engine

fn probe_file(p: &str) {
    let text = std::fs::read_to_string(p).unwrap();
    let mut srv = Server::new();
    for chunk in text.split("\n---\n") {
        println!("=== {}", chunk.trim());
        let r = srv.batch(&[req(chunk.trim_end(), true, true)]);
        println!("  {}   printed {:?} lets {:?} odd {:?}", r[0].verdict.brief(), r[0].printed, r[0].lets, r[0].odd);
    }
}

const BATCH: u64 = 16;

fn merge(total: &mut Acc, a: Acc) {
    total.terms += a.terms;
    total.gluon_calls += a.gluon_calls;
    total.w_typable += a.w_typable;
    total.gluon_accepted += a.gluon_accepted;
    total.gluon_only += a.gluon_only;
    total.nontrivial += a.nontrivial;
    total.with_open_row += a.with_open_row;
    total.base_crashed += a.base_crashed;
    total.variant_crashed_base_rejected += a.variant_crashed_base_rejected;
    for (k, v) in a.crash_kinds {
        *total.crash_kinds.entry(k).or_insert(0) += v;
    }
    total.principal_types.extend(a.principal_types);
    for (k, v) in a.variants {
        *total.variants.entry(k).or_insert(0) += v;
    }
    total.annot_lets_annotated += a.annot_lets_annotated;
    total.annot_lets_skipped_open += a.annot_lets_skipped_open;
    total.expanded_alias += a.expanded_alias;
    total.parse_errors.extend(a.parse_errors);
    total.machinery.extend(a.machinery);
    for (k, v) in a.key_hist {
        *total.key_hist.entry(k).or_insert(0) += v;
    }
    total.findings.extend(a.findings);
    total.samples.extend(a.samples);
    total.gluon_only_samples.extend(a.gluon_only_samples);
    total.crash_samples.extend(a.crash_samples);
    for (k, v) in a.per {
        let e = total.per.entry(k).or_insert([0; 4]);
        for i in 0..4 {
            e[i] += v[i];
        }
    }
    for (k, v) in a.per_types {
        total.per_types.entry(k).or_default().extend(v);
    }
    total.binder_type_differs += a.binder_type_differs;
    total.binder_type_samples.extend(a.binder_type_samples);
}

/// (space, largest size) per tier
pub fn bounds(tier: &str) -> Vec<(&'static str, usize)> {
    let get = |var: &str, d: usize| std::env::var(var).ok().and_then(|s| s.parse().ok()).unwrap_or(d);
    if tier == "quick" {
        vec![("levels", 1), ("ml", get("VERIF_C03_SIZE", 5)), ("rows", get("VERIF_C03_ROWS_SIZE", 6)), ("rows2", get("VERIF_C03_ROWS2_SIZE", 7))]
    } else {
        vec![("levels", 1), ("ml", get("VERIF_C03_SIZE", 6)), ("rows", get("VERIF_C03_ROWS_SIZE", 8)), ("rows2", get("VERIF_C03_ROWS2_SIZE", 8))]
    }
}

pub fn run(tier: &str) -> Report {
    if let Ok(p) = std::env::var("VERIF_C03_PROBE") {
        probe_file(&p);
        std::process::exit(0);
    }
    if std::env::var_os("VERIF_C03_COUNT").is_some() {
        for name in ["ml", "rows", "rows2"] {
            let sp = space(name, 10);
            for s in 1..=10 {
                println!("{} size {}: {}", name, s, sp.count(s));
            }
        }
        std::process::exit(0);
    }
    if let Ok(s) = std::env::var("VERIF_C03_SHOW") {
        // space:size:index -> print the term, W's verdict and gluon's on it and on every variant
        let mut it = s.split(':');
        let name = it.next().unwrap().to_string();
        let size: usize = it.next().unwrap().parse().unwrap();
        let index: u64 = it.next().unwrap().parse().unwrap();
        let t = space(&name, size).unrank(size, 0, index);
        let (body, names) = print_term(&t, Naming::Base, None);
        let src = format!("{}{}", preamble(&t), body);
        let w = algw::principal_with_lets(&t, 0);
        println!("{}\nW: {:?}", src, w.as_ref().map(|n| (n.0.to_string(), n.1.clone())));
        let mut srv = Server::new();
        let base = srv.batch(&[req(&src, true, true)]).remove(0);
        println!("gluon: {}  lets {:?}", base.verdict.brief(), base.lets);
        let closed = w.map(|x| x.1).unwrap_or_default();
        for v in variants(&t, &preamble(&t), &base, &names, &closed, None) {
            let g = srv.batch(&[req(&v.source, false, true)]).remove(0);
            println!("--- [{}]\n{}\n=> {}", v.kind, v.source, g.verdict.brief());
        }
        std::process::exit(0);
    }
    let mut report = Report::new("C03", tier, "exploration");
    let deadline = par::deadline_for(tier, 32, 1400);

    let mut total = Acc::default();
    let mut per_size: BTreeMap<String, Value> = BTreeMap::new();
    let plan = bounds(tier);
    let spaces: BTreeMap<&'static str, Space> = plan.iter().map(|(n, m)| (*n, space(n, *m))).collect();
    // all (space, size) pairs, fewest terms first, so that a wall cap cuts the largest sizes only
    let mut jobs: Vec<(&'static str, usize, usize)> = vec![];
    for (name, max) in &plan {
        for size in 1..=*max {
            jobs.push((name, size, *max));
        }
    }
    jobs.sort_by_key(|(name, size, _)| spaces[name].count(*size));
    struct Batch {
        space: &'static str,
        size: usize,
        lo: u64,
        hi: u64,
        policy: Policy,
    }
    let mut batches: Vec<Batch> = vec![];
    for (name, size, max) in &jobs {
        let n = spaces[name].count(*size);
        let policy = if tier == "quick" && size == max && *size >= 5 { Policy::AlphaOnly } else { Policy::All };
        let mut lo = 0;
        while lo < n {
            let hi = (lo + BATCH).min(n);
            batches.push(Batch { space: name, size: *size, lo, hi, policy });
            lo = hi;
        }
    }
    let batches_ref = &batches;
    let spaces_ref = &spaces;
    let sweep = par::sweep(
        batches.len(),
        1,
        Some(deadline),
        |_| Server::new(),
        |srv: &mut Server, acc: &mut Acc, b: usize| {
            let b = &batches_ref[b];
            check_terms(srv, acc, &spaces_ref[b.space], b.size, b.lo..b.hi, b.policy);
        },
    );
    let capped = sweep.capped;
    let timing = std::env::var_os("VERIF_C03_TIMING").is_some();
    if timing {
        eprintln!("sweep done at {:.1}s", report.elapsed());
    }
    for a in sweep.results {
        merge(&mut total, a);
    }
    if timing {
        eprintln!("merge done at {:.1}s", report.elapsed());
    }
    let mut completed: BTreeMap<&'static str, usize> = BTreeMap::new();
    for (name, size, max) in &jobs {
        let n = spaces[name].count(*size);
        let st = total.per.get(&(*name, *size)).cloned().unwrap_or([0; 4]);
        let types = total.per_types.get(&(*name, *size)).map(|t| t.len()).unwrap_or(0);
        let policy = if tier == "quick" && size == max && *size >= 5 { "alpha only" } else { "all" };
        per_size.insert(
            format!("{}.{}", name, size),
            json!({"terms_in_space": n, "terms_checked": st[0], "typable_by_W": st[1], "accepted_by_gluon": st[2],
                   "distinct_principal_types": types, "checker_crashed": st[3], "variants_on_rejected_programs": policy}),
        );
        println!(
            "C03 {} size {}: space {} checked {} W-typable {} gluon-accepted {} checker-crashed {} distinct principal types {}",
            name, size, n, st[0], st[1], st[2], st[3], types
        );
    }
    for (name, max) in &plan {
        let mut done = 0;
        for size in 1..=*max {
            let st = total.per.get(&(*name, size)).cloned().unwrap_or([0; 4]);
            if st[0] == spaces[name].count(size) {
                done = size;
            } else {
                break;
            }
        }
        completed.insert(name, done);
    }

    // violations, deterministic order
    total.findings.sort_by(|a, b| (a.key.as_str(), a.what.len(), a.what.as_str()).cmp(&(b.key.as_str(), b.what.len(), b.what.as_str())));
    for f in &total.findings {
        let cases = total.key_hist.get(&f.key).cloned().unwrap_or(1);
        report.violation(f.key.clone(), format!("{} ({} cases with this key)", f.what, cases), f.replay.clone());
    }
    report.set("violating_cases_total", total.key_hist.values().sum::<u64>());
    report.set("violation_key_histogram", json!(total.key_hist));
    for m in total.parse_errors.iter().take(4) {
        report.machinery(format!("generator produced a program that does not parse: {}", m));
    }
    for m in total.machinery.iter().take(4) {
        report.machinery(m.clone());
    }
    if total.w_typable == 0 || total.principal_types.len() < 10 {
        report.machinery("vacuity guard: W typed (almost) nothing");
    }
    report.set("size_bound_requested", json!(plan.iter().map(|(n, m)| (n.to_string(), *m)).collect::<BTreeMap<_, _>>()));
    report.set("size_bound_completed", json!(completed.iter().map(|(n, m)| (n.to_string(), *m)).collect::<BTreeMap<_, _>>()));
    report.set("per_size", json!(per_size));
    report.set("terms", total.terms);
    report.set("evaluations", total.gluon_calls);
    report.set("typable_by_W", total.w_typable);
    report.set("accepted_by_gluon", total.gluon_accepted);
    report.set("accepted_by_gluon_but_not_W", total.gluon_only);
    report.set("accepted_by_gluon_but_not_W_samples", json!(total.gluon_only_samples.iter().take(6).collect::<Vec<_>>()));
    report.set("checker_crashed_on_base_program", total.base_crashed);
    report.set("checker_crashed_on_variant_of_rejected_program", total.variant_crashed_base_rejected);
    report.set("checker_crash_kinds", json!(total.crash_kinds));
    report.set("checker_crash_samples", json!(total.crash_samples.iter().take(4).collect::<Vec<_>>()));
    report.set("distinct_principal_types", total.principal_types.len() as u64);
    report.set("principal_types_with_open_row", total.with_open_row);
    report.set("distinct_nontrivial", total.nontrivial);
    report.set("metamorphic_variants_run", json!(total.variants));
    report.set("let_annotations_inserted", total.annot_lets_annotated);
    report.set("let_annotations_skipped_type_not_closed", total.annot_lets_skipped_open);
    report.set("reported_types_with_expanded_alias", total.expanded_alias);
    report.set("let_binder_types_recorded_in_ast_differing_from_W", total.binder_type_differs);
    report.set("let_binder_types_recorded_in_ast_differing_from_W_samples", json!(total.binder_type_samples.iter().take(4).collect::<Vec<_>>()));
    report.set("exhaustive", !capped);
    report.set("wall_cap_hit", capped);
    report.set(
        "rule",
        "two fragments, every closed untyped term (typable or not) up to the AST size in size_bound_completed, addressed by \
         count/unrank and checked exactly once each. `ml`: variables, \\x ->, application, let, let f x =, rec let f x =, if, \
         the atoms 1 \"s\" True () N S A B [], records {x} {y} {x,y} {y,x}, .x .y, pairs, arrays of 1 and 2 elements, match on \
         O a = N | S a, on V = A | B Int and on a pair pattern. `rows` (smaller alphabet, larger bound): variables, \\x ->, \
         application, let, 1, records {x} {x,y} {y,x}, .x .y, two-element arrays. evaluations = type checker runs (base program \
         + alpha / unused-top / unused-inner / annot-top / annot-lets variants + fresh-VM confirmations). distinct_nontrivial \
         = terms typable by the independent algorithm W that contain a lambda or a let and whose principal type has a type \
         variable, a row variable or a record",
    );
    for s in total.samples.into_iter().take(12) {
        report.sample(s);
    }
    report.assume("reference discipline: Hindley-Milner with let-generalisation of every let (no value restriction, as gluon does), monomorphic recursion for `rec let`, closed ordered records (two closed records unify only with the same label sequence), Remy-style open rows for field access; tuples are closed records _0,_1 and () is the empty closed record");
    report.assume("reported types are compared after deleting all quantifiers wherever they stand (placement of quantifiers), renaming type variables by first occurrence and comparing the fields of OPEN records as a set (their order is unspecified by the book); closed records are compared as sequences; aliases O, V, Bool are compared by name");
    report.assume("when W rejects a term nothing is demanded of gluon on the principal-type side (gluon may accept more); the metamorphic checks still run on it (in the quick tier only alpha-renaming at the largest size)");
    report.assume("let annotations are inserted only where the reference inference says the binding's type is closed (no type variable of an enclosing lambda: such a type cannot be written in source); the text inserted is gluon's own rendering of the type it recorded for the binder, except that the qualifiers `main.` / `std.types.` are dropped");
    report.assume("the unused binding's right-hand side is `\\z -> z` (top) or the variable bound by the nearest binder (inner): neither constrains any type");
    report.assume("the checker overflows the native stack on some ill-typed terms (occurs check through an alias application, the C09 stack-overflow finding); every checker run is therefore in a child process; for the differential checks a crash counts as a rejection (counted in checker_crashed_*), and a crash on a term W types is a completeness violation");
    report.assume("child VMs are reused for 1000 programs (module name `main` overwritten); per worker thread the first 2 cases of every violation key are re-run on fresh VMs before they are reported, further cases with the same key are only counted");
    report
}

pub fn replay(v: &Value) -> Report {
    let mut report = Report::new("C03", "quick", "exploration");
    let kind = v["kind"].as_str().unwrap_or("");
    let src = v["source"].as_str().unwrap_or("").to_string();
    let expected = v["expected"].as_str().unwrap_or("").to_string();
    println!("kind: {}\nsource:\n{}", kind, src);
    let mut srv = Server::new();
    let base = srv.batch(&[req(&src, false, true)]).remove(0);
    println!("gluon on source: {}", base.verdict.brief());
    let reproduced = match kind {
        "principal" => {
            // recompute the reference type from the term itself
            let size = v["size"].as_u64().unwrap_or(0) as usize;
            let index = v["index"].as_u64().unwrap_or(0);
            let t = space(v["space"].as_str().unwrap_or("ml"), size.max(1)).unrank(size, 0, index);
            let again = format!("{}{}", preamble(&t), print_term(&t, Naming::Base, None).0);
            if again != src {
                report.machinery("replay: the recorded source is not the program of the recorded index");
            }
            let p = algw::principal(&t, 0);
            println!("W: {:?} (recorded {})", p.as_ref().map(|n| n.to_string()), expected);
            match (&p, &base.verdict) {
                (Ok(p), Verdict::Ok(n)) => n != p,
                (Ok(_), _) => true,
                _ => false,
            }
        }
        "failure" => !matches!(base.verdict, Verdict::Ok(_) | Verdict::Typecheck(_)),
        _ => {
            let vs = v["variant_source"].as_str().unwrap_or("");
            println!("variant:\n{}", vs);
            let got = srv.batch(&[req(vs, false, true)]).remove(0);
            println!("gluon on variant: {}", got.verdict.brief());
            meta_disagreement(&base.verdict, &got.verdict).is_some()
        }
    };
    println!("recorded: expected {} observed {}", expected, v["observed"]);
    if reproduced {
        report.violation("replay", format!("reproduced: {}", base.verdict.brief()), v.clone());
    }
    report.set("evaluations", 1u64);
    report.set("distinct_nontrivial", 1u64);
    report
}
