//! C13 — heaps are isolated: values crossing threads are complete independent copies.
//!
//! Explicit-state exploration on the real VM. A case is
//!   (transfer route instance) x (post-transfer operation sequence), and every case is run for
//!   every value shape.
//! Thread tree of every case (depth 3) plus an unrelated VM:
//!   0 = root R, 1 = child A of R, 2 = child B of R, 3 = grandchild A1 of A, 4 = root U of a second VM.
//! Routes (all instances over the tree are enumerated):
//!   reroot(src,dst)          host `RootedValue::re_root`                      all ordered pairs
//!   push(src,dst)            host passes the handle as an argument of a function of dst
//!                            (`Pushable for RootedValue`)                     all ordered pairs
//!   chan(owner,src,dst)      channel created on owner, sent from src, received on dst
//!   ref(owner,src,dst)       reference created on owner, stored from src, loaded on dst
//!   lazy(owner,src,dst)      lazy created on owner, forced on src, forced again on dst
//!                            (owner ranges over the threads of R's VM, src/dst over owner and
//!                            its descendants: the threads that may legitimately hold the cell)
//! Post operations (all sequences up to the tier's length): collect src / dst / root, allocate on
//! src / dst, drop the source handles, drop the whole source VM (when src and dst are in
//! different VMs).
//! Oracle, in every state (after the transfer and after every post operation):
//!   * the copy observed on dst (through an observer function compiled on dst: calls closures and
//!     partial applications, follows cycles, loads cells) equals the shape's expected observation,
//!     shared sub-values are still shared (pointer identity), the process is alive;
//!   * the ownership visitor (hooks) walking every root of both VMs finds no object pointing into
//!     a heap that is neither its own nor an ancestor's, and no freed object.

use crate::isolate::{self, CaseOutcome};
use crate::par;
use crate::report::Report;
use crate::vmkit::{self, Settings, W};
use gluon::vm::api::{Hole, OpaqueValue, OwnedFunction, IO};
use gluon::vm::verif;
use gluon::{RootedThread, ThreadExt};
use serde_json::{json, Value};
use std::collections::{BTreeMap, BTreeSet};
use std::time::Duration;

type H = OpaqueValue<RootedThread, Hole>;

// ---------------------------------------------------------------------------------------------
// shapes

struct Shape {
    name: &'static str,
    /// expression building the value
    make: &'static str,
    /// observer `value -> first order observation`
    observe: &'static str,
    /// paths (field indices) of two sub-values that must be the same object, if any
    shared: Option<(&'static [usize], &'static [usize])>,
}

const SHAPE_HEAD: &str = "let { Bool } = import! std.types\ntype V = | A | C Int V\n";

fn shapes() -> Vec<Shape> {
    vec![
        Shape { name: "int", make: "7", observe: "\\x -> x", shared: None },
        Shape { name: "string", make: "\"hello\"", observe: "\\x -> x", shared: None },
        Shape { name: "record", make: "{ a = \"s\", b = { c = [1, 2], d = 2.5 }, e = 1b }", observe: "\\x -> x", shared: None },
        Shape { name: "variant_list", make: "C 1 (C 2 (C 3 A))", observe: "\\x -> x", shared: None },
        Shape {
            name: "cyclic_record",
            make: "type R = { self : () -> R, data : String, n : Array Int }\nrec let r : R = { self = \\_ -> r, data = \"cyc\", n = [1] }\nin r",
            observe: "\\r -> { d = ((r.self ()).self ()).data, n = (r.self ()).n }",
            shared: None,
        },
        Shape {
            name: "dag",
            make: "let s = \"shared\"\nlet t = [s, s]\n{ a = s, b = s, c = t, d = t }",
            observe: "\\x -> x",
            shared: Some((&[0], &[1])),
        },
        Shape {
            name: "closure",
            make: "let s = \"cap\"\nlet xs = [1, 2, 3]\n\\n -> { s, xs, n }",
            observe: "\\f -> f 5",
            shared: None,
        },
        Shape {
            name: "partial_application",
            make: "let f a b c = { a, b, c }\nf \"pa\" [1.5]",
            observe: "\\f -> f 3",
            shared: None,
        },
        Shape {
            name: "extern_partial_application",
            make: "(import! std.string.prim).append \"pre\"",
            observe: "\\f -> f \"x\"",
            shared: None,
        },
        Shape {
            name: "arrays",
            make: "{ i = [1, 2], b = [1b, 2b], f = [1.5], s = [\"x\", \"yy\"], a = [[1], [2, 3]], r = [{ x = 1, y = \"r\" }], v = [C 1 A, A] }",
            observe: "\\x -> x",
            shared: None,
        },
        Shape {
            name: "reference",
            make: "let { ref } = import! std.st.reference.prim\n{ r = ref [1, 2], tag = \"ref\" }",
            observe: "\\x -> { v = (import! std.st.reference.prim).load x.r, tag = x.tag }",
            shared: None,
        },
        Shape {
            name: "lazy_value",
            make: "let { lazy } = import! std.lazy.prim\n{ l = lazy (\\_ -> [\"lz\"]), tag = 1 }",
            observe: "\\x -> { v = (import! std.lazy.prim).force x.l, tag = x.tag }",
            shared: None,
        },
    ]
}

// ---------------------------------------------------------------------------------------------
// routes, post operations

#[derive(Clone, Copy, Debug, PartialEq, Eq, PartialOrd, Ord, Hash)]
enum Route {
    Reroot(u8, u8),
    Push(u8, u8),
    Chan(u8, u8, u8),
    Ref(u8, u8, u8),
    Lazy(u8, u8, u8),
}

fn route_text(r: &Route) -> String {
    match r {
        Route::Reroot(s, d) => format!("reroot:{}:{}", s, d),
        Route::Push(s, d) => format!("push:{}:{}", s, d),
        Route::Chan(o, s, d) => format!("chan:{}:{}:{}", o, s, d),
        Route::Ref(o, s, d) => format!("ref:{}:{}:{}", o, s, d),
        Route::Lazy(o, s, d) => format!("lazy:{}:{}:{}", o, s, d),
    }
}

fn route_parse(s: &str) -> Option<Route> {
    let p: Vec<&str> = s.split(':').collect();
    let n = |i: usize| p.get(i).and_then(|x| x.parse::<u8>().ok());
    match p.first().cloned() {
        Some("reroot") => Some(Route::Reroot(n(1)?, n(2)?)),
        Some("push") => Some(Route::Push(n(1)?, n(2)?)),
        Some("chan") => Some(Route::Chan(n(1)?, n(2)?, n(3)?)),
        Some("ref") => Some(Route::Ref(n(1)?, n(2)?, n(3)?)),
        Some("lazy") => Some(Route::Lazy(n(1)?, n(2)?, n(3)?)),
        _ => None,
    }
}

const N_THREADS: u8 = 5;
fn parent(t: u8) -> Option<u8> {
    match t {
        1 | 2 => Some(0),
        3 => Some(1),
        _ => None,
    }
}
fn vm_of(t: u8) -> u8 {
    if t == 4 {
        1
    } else {
        0
    }
}
fn desc_or_self(owner: u8) -> Vec<u8> {
    (0..N_THREADS)
        .filter(|t| {
            let mut c = Some(*t);
            while let Some(x) = c {
                if x == owner {
                    return true;
                }
                c = parent(x);
            }
            false
        })
        .collect()
}
/// relation of src and dst in the thread tree (for stable violation keys)
fn relation(s: u8, d: u8) -> &'static str {
    if s == d {
        return "same";
    }
    if vm_of(s) != vm_of(d) {
        return "unrelated-vm";
    }
    if desc_or_self(s).contains(&d) {
        return "to-descendant";
    }
    if desc_or_self(d).contains(&s) {
        return "to-ancestor";
    }
    if parent(s) == parent(d) {
        return "to-sibling";
    }
    "to-cousin"
}

fn all_routes() -> Vec<Route> {
    let mut v = Vec::new();
    for s in 0..N_THREADS {
        for d in 0..N_THREADS {
            if s != d {
                v.push(Route::Reroot(s, d));
                v.push(Route::Push(s, d));
            }
        }
    }
    for o in 0..4u8 {
        let ds = desc_or_self(o);
        for s in &ds {
            for d in &ds {
                v.push(Route::Chan(o, *s, *d));
                v.push(Route::Ref(o, *s, *d));
                v.push(Route::Lazy(o, *s, *d));
            }
        }
    }
    v
}

#[derive(Clone, Copy, Debug, PartialEq, Eq, PartialOrd, Ord, Hash)]
enum Post {
    CollectSrc,
    CollectDst,
    CollectRoot,
    JunkSrc,
    JunkDst,
    DropSrcHandles,
    DropSrcVm,
}

fn post_text(p: &Post) -> &'static str {
    match p {
        Post::CollectSrc => "collect-src",
        Post::CollectDst => "collect-dst",
        Post::CollectRoot => "collect-root",
        Post::JunkSrc => "junk-src",
        Post::JunkDst => "junk-dst",
        Post::DropSrcHandles => "drop-src-handles",
        Post::DropSrcVm => "drop-src-vm",
    }
}
fn post_parse(s: &str) -> Option<Post> {
    [Post::CollectSrc, Post::CollectDst, Post::CollectRoot, Post::JunkSrc, Post::JunkDst, Post::DropSrcHandles, Post::DropSrcVm]
        .iter()
        .cloned()
        .find(|p| post_text(p) == s)
}

fn post_sequences(max_len: usize, cross_vm: bool) -> Vec<Vec<Post>> {
    let mut alpha = vec![Post::CollectSrc, Post::CollectDst, Post::CollectRoot, Post::JunkSrc, Post::JunkDst, Post::DropSrcHandles];
    if cross_vm {
        alpha.push(Post::DropSrcVm);
    }
    let mut out: Vec<Vec<Post>> = vec![vec![]];
    let mut frontier: Vec<Vec<Post>> = vec![vec![]];
    for _ in 0..max_len {
        let mut next = Vec::new();
        for s in &frontier {
            // nothing can be done with the source after its VM is gone
            if s.last() == Some(&Post::DropSrcVm) {
                continue;
            }
            for a in &alpha {
                if *a == Post::DropSrcVm && !s.contains(&Post::DropSrcHandles) {
                    // the host must drop its handles into a VM before the VM can go away
                    continue;
                }
                let mut s2 = s.clone();
                s2.push(*a);
                next.push(s2);
            }
        }
        out.extend(next.iter().cloned());
        frontier = next;
    }
    out
}

// ---------------------------------------------------------------------------------------------
// the per-thread library of Gluon functions (compiled on the thread they are used on)

struct Lib {
    id: OwnedFunction<fn(H) -> H>,
    mkchan: OwnedFunction<fn(H) -> IO<H>>,
    send: OwnedFunction<fn(H, H) -> IO<H>>,
    recv: OwnedFunction<fn(H) -> IO<H>>,
    mkref: OwnedFunction<fn(H) -> IO<H>>,
    store: OwnedFunction<fn(H, H) -> IO<H>>,
    load: OwnedFunction<fn(H) -> IO<H>>,
    force: OwnedFunction<fn(H) -> H>,
}

fn lib(t: &RootedThread) -> Result<Lib, String> {
    fn get<T>(t: &RootedThread, name: &str, src: &str) -> Result<T, String>
    where
        T: for<'vm, 'value> gluon::vm::api::Getable<'vm, 'value> + gluon::vm::api::VmType + Send + 'static,
    {
        t.run_expr::<T>(name, src).map(|x| x.0).map_err(|e| format!("{}: {}", name, vmkit::first_line(&e.to_string())))
    }
    Ok(Lib {
        id: get(t, "c13_id", "\\x -> x")?,
        mkchan: get(t, "c13_mkchan", "\\x -> (import! std.channel.prim).channel x")?,
        send: get(t, "c13_send", "\\c v -> (import! std.channel.prim).send c.sender v")?,
        recv: get(
            t,
            "c13_recv",
            "let { flat_map, wrap } = import! std.io.prim\nlet { Result } = import! std.types\nlet { error } = import! std.prim\n\\c -> flat_map (\\r ->\n        match r with\n        | Ok v -> wrap v\n        | Err _ -> error \"empty channel\") ((import! std.channel.prim).recv c.receiver)",
        )?,
        mkref: get(t, "c13_mkref", "\\x -> (import! std.reference.prim).ref x")?,
        store: get(t, "c13_store", "\\r v -> (import! std.reference.prim).(<-) r v")?,
        load: get(t, "c13_load", "\\r -> (import! std.reference.prim).load r")?,
        force: get(t, "c13_force", "\\l -> (import! std.lazy.prim).force l")?,
    })
}

fn io_result(r: gluon::vm::Result<IO<H>>) -> Result<H, String> {
    match r {
        Ok(IO::Value(h)) => Ok(h),
        Ok(IO::Exception(e)) => Err(format!("io exception: {}", vmkit::first_line(&e))),
        Err(e) => Err(format!("error: {}", vmkit::first_line(&e.to_string()))),
    }
}

fn eval_handle(t: &RootedThread, name: &str, src: &str) -> Result<H, String> {
    let r = std::panic::catch_unwind(std::panic::AssertUnwindSafe(|| t.run_expr::<H>(name, src)));
    match r {
        Ok(Ok((v, _))) => Ok(v),
        Ok(Err(e)) => Err(format!("error: {}", vmkit::first_line(&e.to_string()))),
        Err(p) => Err(format!("host panic: {}", vmkit::panic_message(&p))),
    }
}

// ---------------------------------------------------------------------------------------------
// one case

struct World {
    threads: Vec<Option<RootedThread>>,
    libs: BTreeMap<u8, Lib>,
}

fn build_world() -> World {
    let r = vmkit::make_vm(Settings::bare());
    let a = r.new_thread().expect("thread A");
    let b = r.new_thread().expect("thread B");
    let a1 = a.new_thread().expect("thread A1");
    let u = vmkit::make_vm(Settings::bare());
    World { threads: vec![Some(r), Some(a), Some(b), Some(a1), Some(u)], libs: BTreeMap::new() }
}

impl World {
    fn t(&self, i: u8) -> &RootedThread {
        self.threads[i as usize].as_ref().expect("thread alive")
    }
    fn lib(&mut self, i: u8) -> Result<&mut Lib, String> {
        if !self.libs.contains_key(&i) {
            let l = lib(self.t(i))?;
            self.libs.insert(i, l);
        }
        Ok(self.libs.get_mut(&i).unwrap())
    }
}

fn sub<'a>(mut v: gluon::vm::api::ValueRef<'a>, path: &[usize]) -> Option<gluon::vm::api::ValueRef<'a>> {
    for i in path {
        match v {
            gluon::vm::api::ValueRef::Data(d) => v = d.get(*i)?,
            _ => return None,
        }
    }
    Some(v)
}

fn str_ptr(v: gluon::vm::api::ValueRef) -> Option<usize> {
    match v {
        gluon::vm::api::ValueRef::String(s) => Some(s.as_ptr() as usize),
        _ => None,
    }
}

/// What has been transferred for one shape
struct Item {
    shape: usize,
    src_handles: Vec<H>,
    copy: H,
    observer: OwnedFunction<fn(H) -> H>,
    expected: W,
}

fn check_walks(w: &World, problems: &mut Vec<(String, String)>, when: &str) {
    for root in [0u8, 4u8] {
        if let Some(t) = &w.threads[root as usize] {
            if let Err(p) = std::panic::catch_unwind(std::panic::AssertUnwindSafe(|| t.verif_walk())) {
                problems.push(("machinery:walk-panicked".to_string(), format!("{}: {}", when, vmkit::panic_message(&p))));
            }
        }
    }
    let vs = verif::with(|s| std::mem::take(&mut s.violations));
    let mut seen = BTreeSet::new();
    for v in vs {
        let k = violation_kind(&v);
        if seen.insert(k.clone()) {
            problems.push((k, format!("{}: {}", when, v)));
        }
    }
}

/// stable kind of a hook report: the tail of the path with the Rust types and heap depths
fn violation_kind(v: &str) -> String {
    if v.starts_with("freed-but-reachable") {
        let what = v.split("reached freed ").nth(1).unwrap_or("").split(' ').next().unwrap_or("");
        let from = v.split("(from ").nth(1).unwrap_or("").trim_end_matches(')');
        return format!("freed-but-reachable:{}:from:{}", what, from);
    }
    if let Some(path) = v.split("(from path ").nth(1) {
        let path = path.trim_end_matches(')');
        let parts: Vec<&str> = path.split(" -> ").collect();
        // the Rust types of the pointing and the pointed-to object and how their heaps are related
        let tail: Vec<&str> = parts.iter().rev().take(2).rev().map(|p| p.split('@').next().unwrap_or(p)).collect();
        let relation = if v.contains("(a heap of another VM)") {
            "other-vm"
        } else if v.contains("(a descendant heap)") {
            "descendant-heap"
        } else {
            "other-branch"
        };
        return format!("heap-isolation:{}:into:{}", tail.join("->"), relation);
    }
    "hook-report".to_string()
}

fn observe_items(items: &mut Vec<Item>, names: &[&'static str], problems: &mut Vec<(String, String)>, when: &str, route_kind: &str) {
    for it in items.iter_mut() {
        let name = names[it.shape];
        let r = std::panic::catch_unwind(std::panic::AssertUnwindSafe(|| it.observer.call(it.copy.clone())));
        match r {
            Ok(Ok(o)) => {
                let got = vmkit::walk(o.get_ref(), 40);
                if got != it.expected {
                    problems.push((
                        format!("copy-observation-changed:{}:{}", route_kind, name),
                        format!("{}: shape {} observed {:?}, expected {:?}", when, name, got, it.expected),
                    ));
                }
            }
            Ok(Err(e)) => problems.push((
                format!("copy-observer-failed:{}:{}", route_kind, name),
                format!("{}: shape {}: {}", when, name, vmkit::first_line(&e.to_string())),
            )),
            Err(p) => {
                problems.push((
                    format!("copy-observer-panicked:{}:{}", route_kind, name),
                    format!("{}: shape {}: {} ({})", when, name, vmkit::panic_message(&p), vmkit::last_panic_loc()),
                ));
                // the thread is poisoned now
                break;
            }
        }
    }
}

fn run_case(route: Route, posts: &[Post], only_shape: Option<usize>, skip: &BTreeSet<usize>) -> (Vec<(String, String)>, u64, u64) {
    let mut problems: Vec<(String, String)> = Vec::new();
    let mut transfers = 0u64;
    let mut refused = 0u64;
    verif::reset(true);
    verif::with(|s| s.quarantine = true);
    let mut w = build_world();
    let shapes = shapes();
    let names: Vec<&'static str> = shapes.iter().map(|s| s.name).collect();
    let (kind, owner, src, dst) = match route {
        Route::Reroot(s, d) => ("reroot", None, s, d),
        Route::Push(s, d) => ("push", None, s, d),
        Route::Chan(o, s, d) => ("chan", Some(o), s, d),
        Route::Ref(o, s, d) => ("ref", Some(o), s, d),
        Route::Lazy(o, s, d) => ("lazy", Some(o), s, d),
    };
    let rel = relation(src, dst);
    let route_kind = format!("{}:{}", kind, rel);
    let mut items: Vec<Item> = Vec::new();
    let mut cells: Vec<H> = Vec::new();
    for (si, sh) in shapes.iter().enumerate() {
        if only_shape.map_or(false, |o| o != si) || skip.contains(&si) {
            continue;
        }
        let make_src = format!("{}{}\n", SHAPE_HEAD, sh.make);
        let obs_src = format!("{}{}\n", SHAPE_HEAD, sh.observe);
        // expected observation: the value observed on the thread that made it, on a fresh VM tree
        // this is the same computation without any transfer
        let original = match eval_handle(w.t(src), &format!("mk_{}", sh.name), &make_src) {
            Ok(h) => h,
            Err(e) => {
                problems.push(("machinery:shape-does-not-evaluate".into(), format!("{}: {}", sh.name, e)));
                continue;
            }
        };
        let mut src_observer = match w.t(src).run_expr::<OwnedFunction<fn(H) -> H>>(&format!("obs_{}", sh.name), &obs_src) {
            Ok(f) => f.0,
            Err(e) => {
                problems.push(("machinery:observer-does-not-compile".into(), format!("{}: {}", sh.name, vmkit::first_line(&e.to_string()))));
                continue;
            }
        };
        let expected = match src_observer.call(original.clone()) {
            Ok(o) => vmkit::walk(o.get_ref(), 40),
            Err(e) => {
                problems.push(("machinery:observer-fails-on-original".into(), format!("{}: {}", sh.name, vmkit::first_line(&e.to_string()))));
                continue;
            }
        };
        drop(src_observer);
        // ---- the transfer
        let mut src_handles = vec![original.clone()];
        let copy: Result<H, String> = (|| match route {
            Route::Reroot(_, d) => original
                .clone()
                .into_inner()
                .re_root(w.t(d).clone())
                .map(H::from_value)
                .map_err(|e| format!("refused: {}", vmkit::first_line(&e.to_string()))),
            Route::Push(_, d) => {
                let l = w.lib(d)?;
                l.id.call(original.clone()).map_err(|e| format!("refused: {}", vmkit::first_line(&e.to_string())))
            }
            Route::Chan(o, s, d) => {
                let seed = original.clone();
                let chan = io_result(w.lib(o)?.mkchan.call(seed))?;
                io_result(w.lib(s)?.send.call(chan.clone(), original.clone()))?;
                let got = io_result(w.lib(d)?.recv.call(chan.clone()))?;
                cells.push(chan);
                Ok(got)
            }
            Route::Ref(o, s, d) => {
                // the reference is created on its owner with a placeholder made on the owner
                let placeholder = eval_handle(w.t(o), &format!("ph_{}", sh.name), &make_src)?;
                let r = io_result(w.lib(o)?.mkref.call(placeholder))?;
                io_result(w.lib(s)?.store.call(r.clone(), original.clone()))?;
                let got = io_result(w.lib(d)?.load.call(r.clone()))?;
                cells.push(r);
                Ok(got)
            }
            Route::Lazy(_, _, _) if sh.name == "cyclic_record" => Err("skipped: a recursive binding cannot be written inside a thunk".to_string()),
            Route::Lazy(o, s, d) => {
                let lazy_src = format!("{}let {{ lazy }} = import! std.lazy.prim\nlazy (\\_ ->\n{})\n", SHAPE_HEAD, indent(sh.make));
                let l = eval_handle(w.t(o), &format!("lz_{}", sh.name), &lazy_src)?;
                let first = w.lib(s)?.force.call(l.clone()).map_err(|e| format!("error: {}", vmkit::first_line(&e.to_string())))?;
                src_handles.push(first);
                let got = w.lib(d)?.force.call(l.clone()).map_err(|e| format!("error: {}", vmkit::first_line(&e.to_string())))?;
                cells.push(l);
                Ok(got)
            }
        })();
        transfers += 1;
        let copy = match copy {
            Ok(c) => c,
            Err(e) => {
                if e.starts_with("skipped") {
                    transfers -= 1;
                } else if e.starts_with("refused") {
                    // a transfer that is refused with an error value is not a wrong copy
                    refused += 1;
                } else {
                    problems.push((format!("transfer-failed:{}:{}", route_kind, sh.name), format!("{}: {}", sh.name, e)));
                }
                continue;
            }
        };
        let observer = match w.t(dst).run_expr::<OwnedFunction<fn(H) -> H>>(&format!("obs_{}", sh.name), &obs_src) {
            Ok(f) => f.0,
            Err(e) => {
                problems.push(("machinery:observer-does-not-compile".into(), format!("{} on dst: {}", sh.name, vmkit::first_line(&e.to_string()))));
                continue;
            }
        };
        if std::env::var_os("VERIF_DEBUG").is_some() {
            let a = sub(copy.get_ref(), &[0]).and_then(str_ptr);
            let oa = sub(original.get_ref(), &[0]).and_then(str_ptr);
            let own = |p: Option<usize>| verif::with(|s| p.map(|p| (p, s.owner.iter().filter(|(h, _)| **h <= p && p - **h < 64).map(|(h, o)| (*h, *o)).collect::<Vec<_>>())));
            eprintln!("shape {} copy.0 {:?} original.0 {:?} parents {:?}", sh.name, own(a), own(oa), verif::with(|s| s.parents.clone()));
        }
        // sharing
        if let Some((p1, p2)) = sh.shared {
            let a = sub(copy.get_ref(), p1).and_then(str_ptr);
            let b = sub(copy.get_ref(), p2).and_then(str_ptr);
            let oa = sub(original.get_ref(), p1).and_then(str_ptr);
            let ob = sub(original.get_ref(), p2).and_then(str_ptr);
            if oa.is_some() && oa == ob && a != b {
                problems.push((format!("sharing-lost:{}:{}", route_kind, sh.name), format!("{}: the two references to one string arrive as two strings", sh.name)));
            }
        }
        items.push(Item { shape: si, src_handles, copy, observer, expected });
    }
    observe_items(&mut items, &names, &mut problems, "right after the transfer", &route_kind);
    // a host panic inside the VM leaves a poisoned thread behind: nothing more can be asked of it
    let poisoned = |problems: &Vec<(String, String)>| problems.iter().any(|p| p.0.starts_with("copy-observer-panicked"));
    if poisoned(&problems) {
        std::mem::forget(items);
        std::mem::forget(cells);
        std::mem::forget(w);
        verif::reset(false);
        return (problems, transfers, refused);
    }
    check_walks(&w, &mut problems, "right after the transfer");
    // ---- post operations
    for (pi, p) in posts.iter().enumerate() {
        if problems.len() > 12 {
            break;
        }
        let when = format!("after post operation {} ({})", pi, post_text(p));
        match p {
            Post::CollectSrc => {
                if let Some(t) = &w.threads[src as usize] {
                    t.collect()
                }
            }
            Post::CollectDst => w.t(dst).collect(),
            Post::CollectRoot => {
                let r = if vm_of(src) == 0 { 0 } else { 4 };
                if let Some(t) = &w.threads[r as usize] {
                    t.collect()
                }
            }
            Post::JunkSrc => {
                if let Some(t) = &w.threads[src as usize] {
                    let _ = vmkit::run(t, "junk", JUNK);
                }
            }
            Post::JunkDst => {
                let _ = vmkit::run(w.t(dst), "junk", JUNK);
            }
            Post::DropSrcHandles => {
                for it in items.iter_mut() {
                    it.src_handles.clear();
                }
            }
            Post::DropSrcVm => {
                // only generated when src and dst live in different VMs and the handles are gone
                w.libs.remove(&src);
                if vm_of(src) == 1 {
                    w.libs.remove(&4);
                    w.threads[4] = None;
                } else {
                    for t in [3usize, 2, 1, 0] {
                        w.libs.remove(&(t as u8));
                        w.threads[t] = None;
                    }
                }
                if owner.map_or(false, |o| vm_of(o) == vm_of(src)) {
                    cells.clear();
                }
            }
        }
        observe_items(&mut items, &names, &mut problems, &when, &route_kind);
        if poisoned(&problems) {
            std::mem::forget(items);
            std::mem::forget(cells);
            std::mem::forget(w);
            verif::reset(false);
            return (problems, transfers, refused);
        }
        check_walks(&w, &mut problems, &when);
    }
    drop(items);
    drop(cells);
    w.libs.clear();
    drop(w);
    verif::reset(false);
    (problems, transfers, refused)
}

const JUNK: &str = "type V = | A | C Int V\nrec\nlet build n acc = if n #Int== 0 then acc else build (n #Int- 1) (C n acc)\nlet len v acc =\n    match v with\n    | A -> acc\n    | C _ rest -> len rest (acc #Int+ 1)\nin len (build 60 A) 0";

fn indent(s: &str) -> String {
    s.lines().map(|l| format!("    {}", l)).collect::<Vec<_>>().join("\n")
}

// ---------------------------------------------------------------------------------------------
// worker

pub fn worker(payload: &str) -> String {
    let c: Value = match serde_json::from_str(payload) {
        Ok(v) => v,
        Err(e) => return json!({"error": format!("bad case: {}", e)}).to_string(),
    };
    let mut out = Vec::new();
    let only_shape = c["shape"].as_str().and_then(|n| shapes().iter().position(|s| s.name == n));
    for line in c["cases"].as_str().unwrap_or("").lines() {
        let (r, p) = line.split_once(' ').unwrap_or((line, ""));
        let route = match route_parse(r) {
            Some(r) => r,
            None => {
                out.push(json!({"error": format!("bad route {}", r)}));
                continue;
            }
        };
        let posts: Vec<Post> = p.split(' ').filter_map(post_parse).collect();
        // a shape whose copy makes the VM panic poisons the thread: it is reported, then the case is
        // run again without that shape so that the other shapes are still decided
        let mut skip: BTreeSet<usize> = BTreeSet::new();
        let (mut problems, mut transfers, mut refused) = (Vec::new(), 0, 0);
        loop {
            let (p, t, r) = run_case(route, &posts, only_shape, &skip);
            transfers = transfers.max(t + skip.len() as u64);
            refused = r;
            let names: Vec<&'static str> = shapes().iter().map(|s| s.name).collect();
            let panicked: Option<usize> = p
                .iter()
                .find(|x| x.0.starts_with("copy-observer-panicked"))
                .and_then(|x| names.iter().position(|n| x.0.ends_with(&format!(":{}", n))));
            for x in p {
                if !problems.contains(&x) {
                    problems.push(x);
                }
            }
            match panicked {
                Some(i) if skip.insert(i) && skip.len() < names.len() => continue,
                _ => break,
            }
        }
        out.push(json!({
            "transfers": transfers,
            "refused": refused,
            "problems": problems.iter().map(|(k, w)| json!({"kind": k, "what": w})).collect::<Vec<_>>(),
        }));
    }
    json!({ "results": out }).to_string()
}

// ---------------------------------------------------------------------------------------------
// parent

fn case_text(r: &Route, p: &[Post]) -> String {
    let mut s = route_text(r);
    for x in p {
        s.push(' ');
        s.push_str(post_text(x));
    }
    s
}

pub fn run(tier: &str) -> Report {
    let mut report = Report::new("C13", tier, "model_checking");
    let quick = tier == "quick";
    let deadline = par::deadline_for(tier, 45, 1500);
    let max_len = if quick { 2 } else { 3 };
    let routes = all_routes();
    let mut cases: Vec<String> = Vec::new();
    let mut states: BTreeSet<String> = BTreeSet::new();
    let mut transitions = 0u64;
    for r in &routes {
        let (s, d) = match r {
            Route::Reroot(s, d) | Route::Push(s, d) => (*s, *d),
            Route::Chan(_, s, d) | Route::Ref(_, s, d) | Route::Lazy(_, s, d) => (*s, *d),
        };
        for p in post_sequences(max_len, vm_of(s) != vm_of(d)) {
            // every prefix of a sequence is a state of the exploration (checked step by step); only
            // maximal sequences and their prefixes are replayed, a sequence is run once
            transitions += 1;
            states.insert(case_text(r, &p));
            cases.push(case_text(r, &p));
        }
    }
    // a sequence that is a proper prefix of another one in the list is covered by it (the oracle runs after every step)
    let all: BTreeSet<String> = cases.iter().cloned().collect();
    let maximal: Vec<String> = cases
        .iter()
        .filter(|c| {
            let n = c.split(' ').count();
            // maximal = post sequence of full length, or ends with drop-src-vm
            n - 1 == max_len || c.ends_with("drop-src-vm") || !all.iter().any(|o| o.len() > c.len() && o.starts_with(&format!("{} ", c)))
        })
        .cloned()
        .collect();
    let chunk = 8;
    let payloads: Vec<String> = maximal.chunks(chunk).map(|c| json!({"cases": c.join("\n")}).to_string()).collect();
    let iso = isolate::run_isolated("c13", &payloads, par::n_workers(), Duration::from_secs(180), Some(deadline));
    let mut replayed = 0u64;
    let mut transfers = 0u64;
    let mut refused = 0u64;
    let mut crashed: Vec<String> = Vec::new();
    let fold = |report: &mut Report, case: &str, r: &Value, transfers: &mut u64, refused: &mut u64| {
        *transfers += r["transfers"].as_u64().unwrap_or(0);
        *refused += r["refused"].as_u64().unwrap_or(0);
        for pr in r["problems"].as_array().cloned().unwrap_or_default() {
            let kind = pr["kind"].as_str().unwrap_or("?");
            if kind.starts_with("machinery:") {
                report.machinery(format!("{}: {}", kind, pr["what"].as_str().unwrap_or("")));
                continue;
            }
            report.violation(
                format!("c13:{}", kind),
                format!("case [{}]: {}", case, pr["what"].as_str().unwrap_or("")),
                json!({"cases": case}),
            );
        }
    };
    for (ci, o) in iso.outcomes.iter().enumerate() {
        let chunk_cases: Vec<&String> = maximal.chunks(chunk).nth(ci).map(|c| c.iter().collect()).unwrap_or_default();
        match o {
            None => {}
            Some(CaseOutcome::Done(res)) => {
                let r: Value = serde_json::from_str(res).unwrap_or(json!({}));
                for (k, c) in chunk_cases.iter().enumerate() {
                    replayed += 1;
                    fold(&mut report, c, &r["results"][k], &mut transfers, &mut refused);
                }
            }
            Some(CaseOutcome::Crashed(_)) | Some(CaseOutcome::Hung) => crashed.extend(chunk_cases.iter().map(|s| s.to_string())),
        }
    }
    if !crashed.is_empty() {
        // one case per worker call, and if it still dies one shape at a time, to name the culprit
        let single: Vec<String> = crashed.iter().map(|c| json!({"cases": c}).to_string()).collect();
        let iso2 = isolate::run_isolated("c13", &single, par::n_workers(), Duration::from_secs(60), None);
        for (i, o) in iso2.outcomes.iter().enumerate() {
            replayed += 1;
            match o {
                Some(CaseOutcome::Done(res)) => {
                    let r: Value = serde_json::from_str(res).unwrap_or(json!({}));
                    fold(&mut report, &crashed[i], &r["results"][0], &mut transfers, &mut refused);
                }
                Some(other) => {
                    let route_kind = {
                        let r = route_parse(crashed[i].split(' ').next().unwrap_or("")).unwrap();
                        let (k, s, d) = match r {
                            Route::Reroot(s, d) => ("reroot", s, d),
                            Route::Push(s, d) => ("push", s, d),
                            Route::Chan(_, s, d) => ("chan", s, d),
                            Route::Ref(_, s, d) => ("ref", s, d),
                            Route::Lazy(_, s, d) => ("lazy", s, d),
                        };
                        format!("{}:{}", k, relation(s, d))
                    };
                    // which shape?
                    let names: Vec<&str> = shapes().iter().map(|s| s.name).collect();
                    let per_shape: Vec<String> = names.iter().map(|n| json!({"cases": crashed[i], "shape": n}).to_string()).collect();
                    let iso3 = isolate::run_isolated("c13", &per_shape, par::n_workers(), Duration::from_secs(60), None);
                    let mut named = false;
                    for (k, o3) in iso3.outcomes.iter().enumerate() {
                        if !matches!(o3, Some(CaseOutcome::Done(_))) {
                            named = true;
                            report.violation(
                                format!("c13:process-died:{}:{}", route_kind, names[k]),
                                format!("case [{}] with shape {} kills or hangs the process: {:?}", crashed[i], names[k], o3),
                                json!({"cases": crashed[i], "shape": names[k]}),
                            );
                        }
                    }
                    if !named {
                        report.violation(
                            format!("c13:process-died:{}:all-shapes-together", route_kind),
                            format!("case [{}] kills or hangs the process: {:?}", crashed[i], other),
                            json!({"cases": crashed[i]}),
                        );
                    }
                }
                None => {}
            }
        }
    }
    report.set("states", states.len() as u64);
    report.set("transitions", transitions);
    report.set("traces_validated_against_impl", replayed);
    report.set("maximal_histories", maximal.len() as u64);
    report.set("route_instances", routes.len() as u64);
    report.set("shapes", json!(shapes().iter().map(|s| s.name).collect::<Vec<_>>()));
    report.set("transfers", transfers);
    report.set("transfers_refused_with_an_error", refused);
    report.set("post_sequence_max_length", max_len as u64);
    report.set("exhaustive", !iso.capped);
    report.set("wall_cap_hit", iso.capped);
    for i in [0, maximal.len() / 2, maximal.len() - 1] {
        report.sample(json!({"history": maximal[i], "shapes": "all"}));
    }
    report.assume("threads: root R, children A and B, grandchild A1 of A, and the root U of an unrelated VM; child threads are created through Thread::new_thread (what std.thread.spawn does)");
    report.assume("a transfer that is refused with an error value (for example a thread handle or a channel endpoint that cannot be copied) is not a wrong copy and is counted separately");
    report.assume("functions are compared by observation: closures and partial applications are called on the receiving thread, cells are loaded / forced there");
    report.assume("the whole source VM is only dropped after the host dropped its own handles into it (a host that keeps a handle keeps the VM alive)");
    report
}

pub fn replay(v: &Value) -> Report {
    let mut report = Report::new("C13", "quick", "model_checking");
    let payload = v.to_string();
    let iso = isolate::run_isolated("c13", &[payload], 1, Duration::from_secs(120), None);
    println!("case: {}\nresult: {:?}", v, iso.outcomes[0]);
    match &iso.outcomes[0] {
        Some(CaseOutcome::Done(res)) => {
            let r: Value = serde_json::from_str(res).unwrap_or(json!({}));
            if r["results"].as_array().map_or(false, |a| a.iter().any(|x| x["problems"].as_array().map_or(false, |p| !p.is_empty()))) {
                report.violation("replay", "reproduced", v.clone());
            }
        }
        Some(_) => report.violation("replay", "reproduced (process died or hung)", v.clone()),
        None => {}
    }
    report
}
