//! C06 — scripts cannot crash the host; errors are values and the VM stays usable.
//!
//! (a) PRIMITIVE SWEEP. The extern (Rust implemented) modules of the default VM are discovered at
//! run time (every `import! x` in /repo/std/**/*.glu and every "std.…" string of /repo/src/lib.rs
//! that has no .glu file is tried on a VM), the record TYPE of each module is walked and for every
//! function field whose argument types have an alphabet the FULL cartesian product of the
//! per-type boundary alphabets is called from a Gluon program, one call per fresh VM, inside a
//! worker process. Oracle: the worker survives (no abort/signal), the host sees `Ok` or an error
//! VALUE (a Rust panic caught at the host boundary is a violation too), and the VM evaluates a
//! canary afterwards with its frames unwound.
//!
//! (b) HISTORY BFS. Every sequence up to depth d over an alphabet of failing evaluations (one per
//! failure class) and succeeding canaries is executed on ONE VM. Oracle: every evaluation of the
//! history and the canary suite afterwards give exactly what they give on a fresh VM; frame level
//! and stack length are those of a fresh VM; after `collect()` `allocated_memory()` equals that of
//! a VM that ran only the successful evaluations of the history.

use crate::isolate::{self, CaseOutcome};
use crate::par;
use crate::report::Report;
use crate::vmkit::{self, Outcome, Settings};
use gluon::base::types::{ArcType, ArgType, BuiltinType, NullInterner, Type};
use gluon::vm::thread::ThreadInternal;
use gluon::{RootedThread, ThreadExt};
use serde_json::{json, Value};
use std::collections::{BTreeMap, BTreeSet};
use std::io::{BufRead, Write};
use std::sync::atomic::{AtomicI32, Ordering};
use std::sync::Mutex;
use std::time::{Duration, Instant};

// =============================================================================================
// worker process
// =============================================================================================

static RESULT_FD: AtomicI32 = AtomicI32::new(-1);
static PANICS: Mutex<Vec<(String, String)>> = Mutex::new(Vec::new());

fn short_loc(loc: &str) -> String {
    // "/repo/vm/src/primitives.rs:329" -> "vm/src/primitives.rs:329";
    // "/rustc/<hash>/library/core/src/num/mod.rs:1" -> "core/src/num/mod.rs:1"
    let l = loc.strip_prefix("/repo/").unwrap_or(loc);
    if let Some(i) = l.find("/library/") {
        return l[i + "/library/".len()..].to_string();
    }
    if let Some(i) = l.find("/registry/src/") {
        let rest = &l[i + "/registry/src/".len()..];
        return rest.splitn(2, '/').nth(1).unwrap_or(rest).to_string();
    }
    l.to_string()
}

fn is_nounwind_msg(m: &str) -> bool {
    m.starts_with("panic in a function that cannot unwind") || m.starts_with("panic in a destructor during cleanup")
}

fn install_hook() {
    std::panic::set_hook(Box::new(|info| {
        let loc = info.location().map(|l| format!("{}:{}", l.file(), l.line())).unwrap_or_default();
        let msg = if let Some(s) = info.payload().downcast_ref::<&str>() {
            s.to_string()
        } else if let Some(s) = info.payload().downcast_ref::<String>() {
            s.clone()
        } else {
            "<non-string panic>".to_string()
        };
        let msg = vmkit::first_line(&msg);
        if is_nounwind_msg(&msg) {
            // the process is about to abort: hand the panic(s) that caused it to the supervisor
            let p = PANICS.try_lock().map(|p| p.clone()).unwrap_or_default();
            let text = json!({"abort": true, "panics": p.iter().map(|(l, m)| json!({"loc": short_loc(l), "msg": m})).collect::<Vec<_>>()}).to_string();
            let fd = RESULT_FD.load(Ordering::Relaxed);
            if fd >= 0 {
                unsafe {
                    libc::write(fd, text.as_ptr() as *const libc::c_void, text.len());
                }
            }
        } else if let Ok(mut p) = PANICS.try_lock() {
            if p.len() < 8 {
                p.push((loc, msg));
            }
        }
    }));
}

/// where the parent puts the sandboxes of its workers (a tmpfs if there is one: every case that
/// may touch the file system gets a freshly built directory)
fn new_sandbox_base() -> std::path::PathBuf {
    let shm = std::path::Path::new("/dev/shm");
    let root = if shm.is_dir() && std::fs::create_dir_all(shm.join(format!("c06_probe_{}", std::process::id()))).is_ok() {
        let _ = std::fs::remove_dir_all(shm.join(format!("c06_probe_{}", std::process::id())));
        shm.to_path_buf()
    } else {
        std::env::temp_dir()
    };
    let base = root.join(format!("c06_sbx_{}", std::process::id()));
    let _ = std::fs::create_dir_all(&base);
    std::env::set_var("C06_SANDBOX_BASE", &base);
    base
}

fn sandbox_base() -> std::path::PathBuf {
    std::env::var_os("C06_SANDBOX_BASE").map(std::path::PathBuf::from).unwrap_or_else(|| std::env::temp_dir().join(format!("c06_sbx_{}", std::process::id())))
}

fn reset_sandbox(dir: &std::path::Path) {
    let _ = std::fs::remove_dir_all(dir);
    let _ = std::fs::create_dir_all(dir.join("d"));
    let _ = std::fs::write(dir.join("in.txt"), "h\u{e9}llo\nworld\n");
    let _ = std::fs::write(dir.join("d").join("inner.txt"), "x");
    let _ = std::env::set_current_dir(dir);
}

/// A forked copy of the (single-threaded, warmed-up) worker that runs cases until it dies: an
/// abort, a signal or a hang of the subject is a *result*, and costs a fork instead of an exec.
/// It receives a batch (one line: JSON array of case payloads) and answers one line per case.
struct Runner {
    pid: libc::pid_t,
    to_child: libc::c_int,
    from_child: libc::c_int,
    buf: Vec<u8>,
}

unsafe fn write_all_fd(fd: libc::c_int, bytes: &[u8]) -> bool {
    let mut off = 0usize;
    while off < bytes.len() {
        let n = unsafe { libc::write(fd, bytes[off..].as_ptr() as *const libc::c_void, bytes.len() - off) };
        if n <= 0 {
            return false;
        }
        off += n as usize;
    }
    true
}

fn spawn_runner(dir: &std::path::Path) -> Option<Runner> {
    unsafe {
        let mut down = [0 as libc::c_int; 2];
        let mut up = [0 as libc::c_int; 2];
        if libc::pipe(down.as_mut_ptr()) != 0 || libc::pipe(up.as_mut_ptr()) != 0 {
            return None;
        }
        let pid = libc::fork();
        if pid < 0 {
            return None;
        }
        if pid == 0 {
            libc::close(down[1]);
            libc::close(up[0]);
            libc::prctl(libc::PR_SET_PDEATHSIG, libc::SIGKILL);
            RESULT_FD.store(up[1], Ordering::Relaxed);
            use std::os::unix::io::FromRawFd;
            let input = std::io::BufReader::new(std::fs::File::from_raw_fd(down[0]));
            'outer: for line in input.lines() {
                let line = match line {
                    Ok(l) => l,
                    Err(_) => break,
                };
                let batch: Vec<String> = serde_json::from_str(&line).unwrap_or_default();
                for payload in &batch {
                    if let Ok(mut p) = PANICS.lock() {
                        p.clear();
                    }
                    if payload.contains("\"fs\":true") {
                        reset_sandbox(dir);
                    }
                    let mut res = worker_case(payload).replace('\n', " ");
                    res.push('\n');
                    if !write_all_fd(up[1], res.as_bytes()) {
                        break 'outer;
                    }
                }
            }
            libc::_exit(0);
        }
        libc::close(down[0]);
        libc::close(up[1]);
        Some(Runner { pid, to_child: down[1], from_child: up[0], buf: Vec::new() })
    }
}

enum Answer {
    Line(String),
    /// the runner is gone: EOF (with what it wrote last) or time limit
    Gone(String),
    Timeout,
}

impl Runner {
    fn send(&self, batch: &[String]) -> bool {
        let mut line = serde_json::to_string(batch).unwrap();
        line.push('\n');
        unsafe { write_all_fd(self.to_child, line.as_bytes()) }
    }

    fn next_line(&mut self, timeout: Duration) -> Answer {
        let start = Instant::now();
        let mut tmp = vec![0u8; 65536];
        loop {
            if let Some(pos) = self.buf.iter().position(|b| *b == b'\n') {
                let line: Vec<u8> = self.buf.drain(..=pos).collect();
                return Answer::Line(String::from_utf8_lossy(&line[..line.len() - 1]).to_string());
            }
            let left = timeout.checked_sub(start.elapsed()).unwrap_or(Duration::ZERO);
            if left.is_zero() {
                return Answer::Timeout;
            }
            let mut pfd = libc::pollfd { fd: self.from_child, events: libc::POLLIN, revents: 0 };
            let r = unsafe { libc::poll(&mut pfd, 1, left.as_millis().min(1_000_000) as libc::c_int) };
            if r > 0 {
                let n = unsafe { libc::read(self.from_child, tmp.as_mut_ptr() as *mut libc::c_void, tmp.len()) };
                if n <= 0 {
                    let rest = String::from_utf8_lossy(&self.buf).to_string();
                    self.buf.clear();
                    return Answer::Gone(rest);
                }
                self.buf.extend_from_slice(&tmp[..n as usize]);
            } else if r == 0 {
                return Answer::Timeout;
            } else if std::io::Error::last_os_error().kind() != std::io::ErrorKind::Interrupted {
                return Answer::Gone(String::new());
            }
        }
    }

    /// reaps the runner; returns how it ended
    fn reap(self, kill: bool) -> String {
        unsafe {
            if kill {
                libc::kill(self.pid, libc::SIGKILL);
            }
            libc::close(self.to_child);
            let mut status: libc::c_int = 0;
            libc::waitpid(self.pid, &mut status, 0);
            libc::close(self.from_child);
            if libc::WIFSIGNALED(status) {
                format!("killed by signal {}", libc::WTERMSIG(status))
            } else {
                format!("exit code {}", libc::WEXITSTATUS(status))
            }
        }
    }
}

/// Runs the cases in order, replacing the runner whenever a case kills it.
fn run_batch(runner: &mut Option<Runner>, dir: &std::path::Path, cases: &[String]) -> Vec<String> {
    let mut out: Vec<String> = Vec::with_capacity(cases.len());
    while out.len() < cases.len() {
        let mut r = match runner.take().or_else(|| spawn_runner(dir)) {
            Some(r) => r,
            None => {
                out.push(json!({"class": "Machinery", "msg": "fork failed"}).to_string());
                continue;
            }
        };
        if !r.send(&cases[out.len()..]) {
            let how = r.reap(true);
            out.push(json!({"class": "Machinery", "msg": format!("runner not writable ({})", how)}).to_string());
            continue;
        }
        loop {
            let secs = serde_json::from_str::<Value>(&cases[out.len()]).ok().and_then(|v| v["t"].as_u64()).unwrap_or(20);
            match r.next_line(Duration::from_secs(secs)) {
                Answer::Line(l) => {
                    out.push(l);
                    if out.len() == cases.len() {
                        *runner = Some(r);
                        break;
                    }
                }
                Answer::Gone(rest) => {
                    let how = r.reap(false);
                    let info: Value = serde_json::from_str(rest.trim()).unwrap_or(Value::Null);
                    out.push(json!({"class": "ABORT", "status": how, "panics": info["panics"]}).to_string());
                    break;
                }
                Answer::Timeout => {
                    let _ = r.reap(true);
                    out.push(json!({"class": "HANG"}).to_string());
                    break;
                }
            }
        }
    }
    out
}

/// Child side. stdin/stdout of the worker are the protocol pipes; the subject may print and read,
/// so the protocol moves to duplicated descriptors and 0/1/2 are pointed at /dev/null.
/// A protocol case is either one case payload or `{"k":"batch","cases":[payload,…]}`; the answer
/// to a batch is the JSON array of the answers.
pub fn worker_main() {
    let (inp, out) = unsafe {
        let inp = libc::dup(0);
        let out = libc::dup(1);
        let null_r = libc::open(b"/dev/null\0".as_ptr() as *const libc::c_char, libc::O_RDONLY);
        let null_w = libc::open(b"/dev/null\0".as_ptr() as *const libc::c_char, libc::O_WRONLY);
        libc::dup2(null_r, 0);
        libc::dup2(null_w, 1);
        libc::dup2(null_w, 2);
        let lim = libc::rlimit { rlim_cur: 0, rlim_max: 0 };
        libc::setrlimit(libc::RLIMIT_CORE, &lim);
        (inp, out)
    };
    install_hook();
    // warm up lazily initialised process state so that the forked runners do not pay for it
    {
        let vm = vmkit::make_vm(settings(false, false));
        let _ = vmkit::run(&vm, "warm", "1 #Int+ 2");
    }
    use std::os::unix::io::FromRawFd;
    let input = std::io::BufReader::new(unsafe { std::fs::File::from_raw_fd(inp) });
    let mut output = unsafe { std::fs::File::from_raw_fd(out) };
    let dir = sandbox_base().join(format!("w{}", std::process::id()));
    let mut runner: Option<Runner> = None;
    for line in input.lines() {
        let line = match line {
            Ok(l) => l,
            Err(_) => break,
        };
        let (idx, payload) = match line.split_once('\t') {
            Some(x) => x,
            None => continue,
        };
        let payload: String = serde_json::from_str(payload).unwrap_or_else(|_| payload.to_string());
        let _ = writeln!(output, "B {}", idx);
        let _ = output.flush();
        let v: Value = serde_json::from_str(&payload).unwrap_or(Value::Null);
        let res = if v["k"].as_str() == Some("batch") {
            let cases: Vec<String> = v["cases"].as_array().map(|a| a.iter().filter_map(|x| x.as_str().map(|s| s.to_string())).collect()).unwrap_or_default();
            json!(run_batch(&mut runner, &dir, &cases)).to_string()
        } else {
            run_batch(&mut runner, &dir, &[payload.clone()]).pop().unwrap_or_default()
        };
        let _ = writeln!(output, "E {}\t{}", idx, serde_json::to_string(&res).unwrap());
        let _ = output.flush();
    }
    if let Some(r) = runner {
        let _ = r.reap(false);
    }
    let _ = std::env::set_current_dir("/");
    let _ = std::fs::remove_dir_all(&dir);
}

/// Parent side: runs case payloads through the worker processes in batches of `batch`.
fn run_cases(payloads: &[String], batch: usize, deadline: Option<Instant>) -> (Vec<Option<CaseOutcome>>, bool) {
    let batch = batch.max(1);
    let chunks: Vec<&[String]> = payloads.chunks(batch).collect();
    let lines: Vec<String> = chunks.iter().map(|c| json!({"k": "batch", "cases": c}).to_string()).collect();
    // the time limit of a protocol case covers a whole batch; the per-case limits are enforced
    // by the worker's supervisor
    let iso = isolate::run_isolated("c06", &lines, par::n_workers(), Duration::from_secs(60 * batch as u64 + 120), deadline);
    let mut out: Vec<Option<CaseOutcome>> = Vec::with_capacity(payloads.len());
    for (ci, c) in chunks.iter().enumerate() {
        match &iso.outcomes[ci] {
            None => out.extend(std::iter::repeat(None).take(c.len())),
            Some(CaseOutcome::Done(r)) => {
                let rs: Vec<String> = serde_json::from_str(r).unwrap_or_default();
                for k in 0..c.len() {
                    out.push(Some(match rs.get(k) {
                        Some(x) => CaseOutcome::Done(x.clone()),
                        None => CaseOutcome::Crashed("no answer for this case in its batch".to_string()),
                    }));
                }
            }
            Some(other) => out.extend(std::iter::repeat(Some(other.clone())).take(c.len())),
        }
    }
    (out, iso.capped)
}

fn panics_json() -> Value {
    let p = PANICS.lock().map(|p| p.clone()).unwrap_or_default();
    json!(p.iter().map(|(l, m)| json!({"loc": short_loc(l), "msg": m})).collect::<Vec<_>>())
}

fn settings(prelude: bool, run_io: bool) -> Settings {
    Settings { implicit_prelude: prelude, optimize: true, emit_debug_info: true, run_io, full_metadata: false }
}

fn stack_shape(vm: &RootedThread) -> (usize, usize) {
    let mut ctx = vm.context();
    let frames = ctx.frame_level();
    let len = ctx.stack_frame::<gluon::vm::stack::State>().len() as usize;
    (frames, len)
}

fn outcome_json(o: &Outcome) -> Value {
    match o {
        Outcome::Ok(w, t) => {
            let mut s = w.to_string();
            if s.len() > 200 {
                s = format!("{}…({} bytes)", s.chars().take(120).collect::<String>(), s.len());
            }
            json!({"class": "Ok", "val": s, "type": vmkit::first_line(t)})
        }
        Outcome::Err(k, m) => json!({"class": format!("{:?}", k), "msg": m.chars().take(300).collect::<String>()}),
    }
}

fn worker_case(payload: &str) -> String {
    let v: Value = match serde_json::from_str(payload) {
        Ok(v) => v,
        Err(e) => return json!({"class": "BadPayload", "msg": e.to_string()}).to_string(),
    };
    match v["k"].as_str() {
        Some("prim") => worker_prim(&v).to_string(),
        Some("hist") => worker_hist(&v).to_string(),
        _ => json!({"class": "BadPayload"}).to_string(),
    }
}

/// One call of one primitive on a fresh VM, then the follow-up checks on the same VM.
fn worker_prim(v: &Value) -> Value {
    let src = v["src"].as_str().unwrap_or("");
    let prelude = v["prelude"].as_bool().unwrap_or(false);
    let run_io = v["run_io"].as_bool().unwrap_or(false);
    let vm = vmkit::make_vm(settings(prelude, run_io));
    let o = vmkit::run(&vm, "main", src);
    let mut r = outcome_json(&o);
    r["panics"] = panics_json();
    // the VM stays usable: frames unwound, a canary evaluates
    let (frames, len) = stack_shape(&vm);
    vmkit::apply_settings(&vm, settings(false, false));
    let c = vmkit::run(&vm, "canary", "let f x = x #Int+ 2\nf 1");
    r["frames"] = json!(frames);
    r["stack_len"] = json!(len);
    r["canary"] = json!(matches!(c, Outcome::Ok(vmkit::W::Int(3), _)));
    if !matches!(c, Outcome::Ok(vmkit::W::Int(3), _)) {
        r["canary_outcome"] = outcome_json(&c);
    }
    r
}

// =============================================================================================
// (a) discovery of extern modules and their primitives
// =============================================================================================

#[derive(Clone, Debug, PartialEq, Eq, PartialOrd, Ord)]
enum Ty {
    Int,
    Byte,
    Float,
    Char,
    Str,
    Unit,
    Bool,
    Ordering,
    Var(String),
    Array(Box<Ty>),
    Option(Box<Ty>),
    Result(Box<Ty>, Box<Ty>),
    IO(Box<Ty>),
    Fun(Vec<Ty>, Box<Ty>),
    Record(Vec<(String, Ty)>),
    /// variant type whose constructors are all nullary
    Enum(Vec<String>),
    /// anything else, by printed head and arguments
    Named(String, Vec<Ty>),
}

impl Ty {
    fn show(&self) -> String {
        match self {
            Ty::Int => "Int".into(),
            Ty::Byte => "Byte".into(),
            Ty::Float => "Float".into(),
            Ty::Char => "Char".into(),
            Ty::Str => "String".into(),
            Ty::Unit => "()".into(),
            Ty::Bool => "Bool".into(),
            Ty::Ordering => "Ordering".into(),
            Ty::Var(v) => v.clone(),
            Ty::Array(t) => format!("Array ({})", t.show()),
            Ty::Option(t) => format!("Option ({})", t.show()),
            Ty::Result(e, t) => format!("Result ({}) ({})", e.show(), t.show()),
            Ty::IO(t) => format!("IO ({})", t.show()),
            Ty::Fun(a, r) => format!("({} -> {})", a.iter().map(|x| x.show()).collect::<Vec<_>>().join(" -> "), r.show()),
            Ty::Record(fs) => format!("{{ {} }}", fs.iter().map(|(n, t)| format!("{} : {}", n, t.show())).collect::<Vec<_>>().join(", ")),
            Ty::Enum(cs) => format!("(| {})", cs.join(" | ")),
            Ty::Named(h, a) => {
                if a.is_empty() {
                    h.clone()
                } else {
                    format!("{} {}", h, a.iter().map(|x| format!("({})", x.show())).collect::<Vec<_>>().join(" "))
                }
            }
        }
    }
    fn vars(&self, out: &mut BTreeSet<String>) {
        match self {
            Ty::Var(v) => {
                out.insert(v.clone());
            }
            Ty::Array(t) | Ty::Option(t) | Ty::IO(t) => t.vars(out),
            Ty::Result(a, b) => {
                a.vars(out);
                b.vars(out)
            }
            Ty::Fun(a, r) => {
                for x in a {
                    x.vars(out)
                }
                r.vars(out)
            }
            Ty::Record(fs) => {
                for (_, t) in fs {
                    t.vars(out)
                }
            }
            Ty::Named(_, a) => {
                for x in a {
                    x.vars(out)
                }
            }
            _ => {}
        }
    }
    fn subst(&self, inst: &BTreeMap<String, Ty>) -> Ty {
        match self {
            Ty::Var(v) => inst.get(v).cloned().unwrap_or_else(|| self.clone()),
            Ty::Array(t) => Ty::Array(Box::new(t.subst(inst))),
            Ty::Option(t) => Ty::Option(Box::new(t.subst(inst))),
            Ty::IO(t) => Ty::IO(Box::new(t.subst(inst))),
            Ty::Result(a, b) => Ty::Result(Box::new(a.subst(inst)), Box::new(b.subst(inst))),
            Ty::Fun(a, r) => Ty::Fun(a.iter().map(|x| x.subst(inst)).collect(), Box::new(r.subst(inst))),
            Ty::Record(fs) => Ty::Record(fs.iter().map(|(n, t)| (n.clone(), t.subst(inst))).collect()),
            Ty::Named(h, a) => Ty::Named(h.clone(), a.iter().map(|x| x.subst(inst)).collect()),
            _ => self.clone(),
        }
    }
}

fn norm_ws(s: &str) -> String {
    s.split_whitespace().collect::<Vec<_>>().join(" ")
}

fn conv(vm: &RootedThread, t: &ArcType, depth: usize) -> Ty {
    if depth == 0 {
        return Ty::Named(norm_ws(&t.to_string()), vec![]);
    }
    match &**t {
        Type::Forall(_, inner) => conv(vm, inner, depth),
        Type::Builtin(b) => match b {
            BuiltinType::Int => Ty::Int,
            BuiltinType::Byte => Ty::Byte,
            BuiltinType::Float => Ty::Float,
            BuiltinType::Char => Ty::Char,
            BuiltinType::String => Ty::Str,
            _ => Ty::Named(norm_ws(&t.to_string()), vec![]),
        },
        Type::Generic(g) => Ty::Var(g.id.declared_name().to_string()),
        Type::Function(ArgType::Explicit, _, _) => {
            let mut args = Vec::new();
            let mut cur = t.clone();
            loop {
                let next = match &*cur {
                    Type::Function(ArgType::Explicit, a, r) => {
                        args.push(conv(vm, a, depth - 1));
                        r.clone()
                    }
                    _ => break,
                };
                cur = next;
            }
            Ty::Fun(args, Box::new(conv(vm, &cur, depth - 1)))
        }
        Type::App(head, args) => {
            let h = norm_ws(&head.to_string());
            let a: Vec<Ty> = args.iter().map(|x| conv(vm, x, depth - 1)).collect();
            match (h.as_str(), a.len()) {
                ("Array", 1) => Ty::Array(Box::new(a[0].clone())),
                ("std.types.Option", 1) | ("Option", 1) => Ty::Option(Box::new(a[0].clone())),
                ("std.types.Result", 2) | ("Result", 2) => Ty::Result(Box::new(a[0].clone()), Box::new(a[1].clone())),
                ("std.io.IO", 1) | ("IO", 1) => Ty::IO(Box::new(a[0].clone())),
                _ => Ty::Named(h, a),
            }
        }
        Type::Record(_) => {
            let fields: Vec<(String, Ty)> =
                gluon::base::types::row_iter(t).map(|f| (f.name.declared_name().to_string(), conv(vm, &f.typ, depth - 1))).collect();
            if fields.is_empty() {
                Ty::Unit
            } else {
                Ty::Record(fields)
            }
        }
        Type::Variant(_) => {
            let ctors: Vec<(String, usize)> = gluon::base::types::row_iter(t)
                .map(|f| (f.name.declared_name().to_string(), gluon::base::types::arg_iter(&f.typ).count()))
                .collect();
            if !ctors.is_empty() && ctors.iter().all(|c| c.1 == 0) {
                Ty::Enum(ctors.into_iter().map(|c| c.0).collect())
            } else {
                Ty::Named(norm_ws(&t.to_string()), vec![])
            }
        }
        Type::Alias(_) | Type::Ident(_) | Type::Projection(_) => {
            let s = norm_ws(&t.to_string());
            match s.as_str() {
                "std.types.Bool" | "Bool" => return Ty::Bool,
                "std.types.Ordering" | "Ordering" => return Ty::Ordering,
                _ => {}
            }
            let env = vm.get_env();
            let r = gluon::base::resolve::remove_aliases_cow(&env, &mut NullInterner, t);
            let r: &ArcType = &r;
            match &**r {
                Type::Record(_) | Type::Variant(_) => match conv(vm, r, depth - 1) {
                    x @ Ty::Record(_) | x @ Ty::Enum(_) | x @ Ty::Unit => x,
                    _ => Ty::Named(s, vec![]),
                },
                _ => Ty::Named(s, vec![]),
            }
        }
        _ => Ty::Named(norm_ws(&t.to_string()), vec![]),
    }
}

#[derive(Clone, Debug)]
struct ModuleInfo {
    name: String,
    prelude: bool,
    /// modules imported before this one
    preload: Vec<String>,
    /// names of type fields that are variant types (their constructors are brought into scope)
    variant_types: Vec<String>,
}

#[derive(Clone, Debug)]
struct Prim {
    module: usize,
    /// field path inside the module record, e.g. ["dir_entry", "path"]
    path: Vec<String>,
    args: Vec<Ty>,
    ret: Ty,
}

impl Prim {
    fn full_name(&self, mods: &[ModuleInfo]) -> String {
        format!("{}.{}", mods[self.module].name, self.path.join("."))
    }
}

fn is_ident(s: &str) -> bool {
    let mut cs = s.chars();
    match cs.next() {
        Some(c) if c.is_ascii_alphabetic() || c == '_' => cs.all(|c| c.is_ascii_alphanumeric() || c == '_'),
        _ => false,
    }
}

fn field_access(path: &[String]) -> String {
    let mut s = String::from("m_");
    for p in path {
        if is_ident(p) {
            s.push('.');
            s.push_str(p);
        } else {
            s.push_str(&format!(".({})", p));
        }
    }
    s
}

fn walk_fields(vm: &RootedThread, module: usize, t: &ArcType, path: &mut Vec<String>, prims: &mut Vec<Prim>, constants: &mut u64) {
    let env = vm.get_env();
    let t = gluon::base::resolve::remove_aliases_cow(&env, &mut NullInterner, t);
    let t: &ArcType = &t;
    for f in gluon::base::types::row_iter(t) {
        let name = f.name.declared_name().to_string();
        path.push(name);
        let ty = conv(vm, &f.typ, 12);
        match ty {
            Ty::Fun(args, ret) => prims.push(Prim { module, path: path.clone(), args, ret: *ret }),
            Ty::IO(_) => prims.push(Prim { module, path: path.clone(), args: vec![], ret: ty }),
            Ty::Record(_) => {
                let mut inner = f.typ.clone();
                while let Type::Forall(_, i) = &*inner.clone() {
                    inner = i.clone();
                }
                walk_fields(vm, module, &inner, path, prims, constants)
            }
            _ => *constants += 1,
        }
        path.pop();
    }
}

fn scan_candidates() -> (Vec<String>, Vec<String>) {
    let mut notes = Vec::new();
    let mut glu: BTreeSet<String> = BTreeSet::new();
    let mut names: BTreeSet<String> = BTreeSet::new();
    fn collect(dir: &std::path::Path, out: &mut Vec<std::path::PathBuf>) {
        if let Ok(rd) = std::fs::read_dir(dir) {
            for e in rd.filter_map(|e| e.ok()) {
                let p = e.path();
                if p.is_dir() {
                    collect(&p, out)
                } else if p.extension().map(|x| x == "glu").unwrap_or(false) {
                    out.push(p)
                }
            }
        }
    }
    let mut files = Vec::new();
    collect(std::path::Path::new("/repo/std"), &mut files);
    if files.is_empty() {
        notes.push("/repo/std is not readable: only the seed list of module names is used".to_string());
    }
    let name_chars = |c: char| c.is_ascii_alphanumeric() || c == '.' || c == '_';
    for p in &files {
        if let Ok(rel) = p.strip_prefix("/repo") {
            let m = rel.with_extension("").to_string_lossy().replace('/', ".");
            glu.insert(m);
        }
        if let Ok(text) = std::fs::read_to_string(p) {
            for part in text.split("import! ").skip(1) {
                let n: String = part.chars().take_while(|c| name_chars(*c)).collect();
                let n = n.trim_end_matches('.').to_string();
                if n.starts_with("std.") {
                    names.insert(n);
                }
            }
        }
    }
    for f in ["/repo/src/lib.rs", "/repo/src/std_lib.rs"] {
        if let Ok(text) = std::fs::read_to_string(f) {
            for part in text.split('"').skip(1).step_by(2) {
                if part.starts_with("std.") && part.chars().all(name_chars) && !part.ends_with('.') {
                    names.insert(part.to_string());
                }
            }
        }
    }
    // seed list (module names of gluon 0.18): discovery still has to load each of them
    for s in [
        "std.prim", "std.int.prim", "std.float.prim", "std.string.prim", "std.char.prim", "std.byte.prim", "std.array.prim",
        "std.lazy.prim", "std.reference.prim", "std.channel.prim", "std.thread.prim", "std.regex.prim", "std.random.prim",
        "std.json.prim", "std.io.prim", "std.fs.prim", "std.path.prim", "std.env.prim", "std.process.prim", "std.debug.prim",
        "std.st.reference.prim", "std.effect.st.string.prim", "std.http.prim", "std.http.prim_types",
    ] {
        names.insert(s.to_string());
    }
    let cands: Vec<String> = names.into_iter().filter(|n| !glu.contains(n)).collect();
    (cands, notes)
}

// =============================================================================================
// (a) alphabets
// =============================================================================================

#[derive(Clone, Debug)]
struct ArgVal {
    /// IO actions bound (in order) before the call: (variable, action); `$` = argument position
    setup: Vec<(String, String)>,
    expr: String,
    /// header modules needed
    needs: BTreeSet<&'static str>,
    prelude: bool,
}

fn pure_val(expr: impl Into<String>) -> ArgVal {
    ArgVal { setup: vec![], expr: expr.into(), needs: BTreeSet::new(), prelude: false }
}
fn val_needs(expr: impl Into<String>, needs: &[&'static str]) -> ArgVal {
    ArgVal { setup: vec![], expr: expr.into(), needs: needs.iter().cloned().collect(), prelude: false }
}
fn io_val(setup: &[(&str, &str)], expr: &str, needs: &[&'static str]) -> ArgVal {
    ArgVal {
        setup: setup.iter().map(|(a, b)| (a.to_string(), b.to_string())).collect(),
        expr: expr.to_string(),
        needs: needs.iter().cloned().collect(),
        prelude: false,
    }
}

/// Gluon string literal (gluon knows only the escapes \n \t \r \\ \" \'; everything else raw)
fn str_lit(s: &str) -> String {
    let mut o = String::from("\"");
    for c in s.chars() {
        match c {
            '\\' => o.push_str("\\\\"),
            '"' => o.push_str("\\\""),
            '\n' => o.push_str("\\n"),
            '\t' => o.push_str("\\t"),
            '\r' => o.push_str("\\r"),
            c => o.push(c),
        }
    }
    o.push('"');
    o
}

fn int_alphabet(thorough: bool) -> Vec<i64> {
    let mut v: Vec<i64> = vec![0, 1, 2, -1, 36, 37, 63, 64, 65, 100, i64::MIN, i64::MAX];
    if thorough {
        v.extend([
            3, 4, 5, -2, 6, 7, 8, 16, 31, 32, 33, 127, 128, 255, 256, 299, 300, 301, 65535, 65536, 0x10FFFF, 0x110000, 0xD800,
            i32::MAX as i64, i32::MAX as i64 + 1, i32::MIN as i64, u32::MAX as i64, u32::MAX as i64 + 1, i64::MIN + 1, i64::MAX - 1, -64, -63,
        ]);
    }
    v
}

fn int_lit(i: i64) -> String {
    if i < 0 {
        format!("({})", i)
    } else {
        i.to_string()
    }
}

fn string_alphabet(thorough: bool) -> Vec<String> {
    let mut v: Vec<String> = vec![
        "".into(),
        "a".into(),
        "12".into(),
        "\u{e9}".into(),
        "a\u{20ac}b".into(),
        "\u{10FFFF}".into(),
        "x".repeat(300),
        "-7".into(),
        "(".into(),
        "in.txt".into(),
        "..".into(),
        "/".into(),
    ];
    if thorough {
        v.extend(
            [
                " 1 ", "zz", "1e400", "nan", "a\u{0}b", "d", "d/inner.txt", ".", "+", "0x10", "\n", "{\"a\":[1,2.5,null,\"\u{e9}\"]}", "(a*)*b",
                "a{1000}{1000}{1000}", "\\", "[a-", "1 #Int+ 1", "a=b", "a:b", "9223372036854775808", "-9223372036854775809", "+5", "1_0",
            ]
            .iter()
            .map(|s| s.to_string()),
        );
        v.push("[".repeat(3000));
    }
    v
}

fn float_alphabet(thorough: bool) -> Vec<ArgVal> {
    let mut v = vec![
        pure_val("0.0"),
        pure_val("1.0"),
        pure_val("(-0.0)"),
        pure_val("(-1.5)"),
        val_needs("flp.nan", &["flp"]),
        val_needs("flp.infinity", &["flp"]),
        val_needs("flp.neg_infinity", &["flp"]),
        val_needs("flp.max_", &["flp"]),
        val_needs("flp.min_", &["flp"]),
        val_needs("flp.min_positive", &["flp"]),
    ];
    if thorough {
        v.extend([
            pure_val("0.5"),
            pure_val("2.0"),
            pure_val("9223372036854775807.0"),
            pure_val("(-9223372036854775809.0)"),
            pure_val("4294967296.0"),
            val_needs("flp.epsilon", &["flp"]),
            val_needs("flp.pi", &["flp"]),
        ]);
    }
    v
}

fn char_alphabet(thorough: bool) -> Vec<ArgVal> {
    let mut v = vec![
        pure_val("'a'"),
        pure_val("'0'"),
        pure_val("'Z'"),
        pure_val("' '"),
        pure_val("'\\n'"),
        val_needs(format!("(chr_ {})", str_lit("\u{e9}")), &["chr"]),
        val_needs(format!("(chr_ {})", str_lit("\u{20ac}")), &["chr"]),
        val_needs(format!("(chr_ {})", str_lit("\u{10FFFF}")), &["chr"]),
    ];
    if thorough {
        v.extend([
            val_needs(format!("(chr_ {})", str_lit("\u{0}")), &["chr"]),
            pure_val("'9'"),
            pure_val("'z'"),
            val_needs(format!("(chr_ {})", str_lit("\u{0663}")), &["chr"]),
            val_needs(format!("(chr_ {})", str_lit("\u{2003}")), &["chr"]),
        ]);
    }
    v
}

struct Gen {
    thorough: bool,
    /// (primitive full name, argument index) -> replacement Int alphabet, with the reason
    int_overrides: BTreeMap<(String, usize), (Vec<i64>, &'static str)>,
}

impl Gen {
    fn new(thorough: bool) -> Gen {
        let mut int_overrides = BTreeMap::new();
        int_overrides.insert(
            ("std.thread.prim.sleep".to_string(), 0usize),
            (vec![0i64, 1, 2], "sleep blocks the calling OS thread for the given number of milliseconds (a negative or huge value blocks practically forever, which is what was asked for): only 0, 1, 2 are driven"),
        );
        Gen { thorough, int_overrides }
    }

    fn take(&self, v: Vec<ArgVal>, compact: bool) -> Vec<ArgVal> {
        if compact {
            v.into_iter().take(3).collect()
        } else {
            v
        }
    }

    /// alphabet of a type; `compact` = element position inside a composite (first three values)
    fn values(&self, ty: &Ty, compact: bool) -> Result<Vec<ArgVal>, String> {
        let th = self.thorough;
        Ok(match ty {
            Ty::Int => self.take(int_alphabet(th).into_iter().map(|i| pure_val(int_lit(i))).collect(), compact),
            Ty::Byte => {
                let mut b: Vec<u8> = vec![0, 1, 7, 8, 255, 2, 127, 128];
                if th {
                    b.extend([3, 9, 15, 16, 254, 64]);
                }
                self.take(b.into_iter().map(|i| pure_val(format!("{}b", i))).collect(), compact)
            }
            Ty::Float => self.take(float_alphabet(th), compact),
            Ty::Char => self.take(char_alphabet(th), compact),
            Ty::Str => {
                let v: Vec<ArgVal> = string_alphabet(th).iter().map(|s| pure_val(str_lit(s))).collect();
                if compact {
                    // "", "a", "é": the multi-byte one matters more than "12" inside containers
                    vec![v[0].clone(), v[1].clone(), v[3].clone()]
                } else {
                    v
                }
            }
            Ty::Unit => vec![pure_val("()")],
            Ty::Bool => vec![pure_val("True"), pure_val("False")],
            Ty::Ordering => vec![pure_val("LT"), pure_val("EQ"), pure_val("GT")],
            Ty::Var(v) => return Err(format!("uninstantiated type variable {}", v)),
            Ty::Enum(cs) => cs.iter().map(|c| pure_val(c.clone())).collect(),
            Ty::Array(e) => self.arrays(e)?,
            Ty::Option(e) => {
                let inner = self.values(e, true)?;
                let mut v = vec![pure_val("None")];
                for x in inner {
                    v.push(wrap_val("(Some ", &x, ")"));
                }
                self.take(v, compact)
            }
            Ty::Result(e, t) => {
                let mut v = Vec::new();
                for x in self.values(t, true)?.into_iter().take(2) {
                    v.push(wrap_val("(Ok ", &x, ")"));
                }
                for x in self.values(e, true)?.into_iter().take(2) {
                    v.push(wrap_val("(Err ", &x, ")"));
                }
                self.take(v, compact)
            }
            Ty::IO(t) => {
                let inner = self.values(t, true)?;
                let first = inner.into_iter().next().ok_or("empty alphabet")?;
                let mut ok = wrap_val("(iop.wrap ", &first, ")");
                ok.needs.insert("iop");
                vec![
                    ok,
                    val_needs("(iop.throw \"c06-thrown\")", &["iop"]),
                    val_needs("(iop.flat_map (\\_ -> error \"c06-io-fail\") (iop.wrap ()))", &["iop"]),
                ]
            }
            Ty::Fun(args, ret) => {
                let lam = format!("\\{} ->", args.iter().enumerate().map(|(i, _)| format!("p{}_", i)).collect::<Vec<_>>().join(" "));
                let mut v = Vec::new();
                if args.len() == 1 && args[0] == **ret {
                    v.push(pure_val("(\\p0_ -> p0_)"));
                }
                for r in self.values(ret, true)?.into_iter().take(if matches!(**ret, Ty::IO(_)) { 3 } else { 1 }) {
                    if r.setup.is_empty() {
                        v.push(wrap_val(&format!("({} ", lam), &r, ")"));
                    }
                }
                v.push(pure_val(format!("({} error \"c06-const-fail\")", lam)));
                v
            }
            Ty::Record(fs) => {
                // two records: all first values, all second values
                let mut out = Vec::new();
                for k in 0..2 {
                    let mut parts = Vec::new();
                    let mut acc = pure_val("");
                    for (n, t) in fs {
                        let vals = self.values(t, true)?;
                        let x = vals.get(k).or_else(|| vals.first()).ok_or("empty alphabet")?.clone();
                        parts.push(format!("{} = {}", n, x.expr));
                        acc.needs.extend(x.needs.iter());
                        acc.prelude |= x.prelude;
                        acc.setup.extend(x.setup);
                    }
                    acc.expr = format!("{{ {} }}", parts.join(", "));
                    out.push(acc);
                }
                out
            }
            Ty::Named(h, a) => self.named(h, a)?,
        })
    }

    fn arrays(&self, e: &Ty) -> Result<Vec<ArgVal>, String> {
        match e {
            Ty::Byte => {
                let seed: Vec<String> = (1..=16).map(|i| format!("{}b", i)).collect();
                let mut v = vec![
                    pure_val("[]"),
                    pure_val("[1b]"),
                    pure_val("[104b, 195b, 169b]"),
                    pure_val("[255b, 254b]"),
                    pure_val("[195b]"),
                    pure_val(format!("[{}]", seed.join(", "))),
                ];
                if self.thorough {
                    v.push(pure_val("[240b, 159b, 146b]"));
                    v.push(pure_val("[237b, 160b, 128b]"));
                    v.push(pure_val(format!("[{}]", vec!["120b"; 300].join(", "))));
                }
                Ok(v)
            }
            Ty::Enum(cs) => {
                let mut v = vec![pure_val("[]")];
                for c in cs {
                    v.push(pure_val(format!("[{}]", c)));
                }
                v.push(pure_val(format!("[{}]", cs.join(", "))));
                Ok(v)
            }
            _ => {
                let inner = self.values(e, true)?;
                let mut v = vec![pure_val("[]")];
                if let Some(x) = inner.first() {
                    v.push(wrap_val("[", x, "]"));
                }
                if inner.len() >= 2 {
                    let mut acc = pure_val("");
                    let mut parts = Vec::new();
                    for (i, x) in inner.iter().cycle().take(3).enumerate() {
                        if !x.setup.is_empty() && i > 0 {
                            continue;
                        }
                        parts.push(x.expr.clone());
                        acc.needs.extend(x.needs.iter());
                        acc.prelude |= x.prelude;
                        acc.setup.extend(x.setup.clone());
                    }
                    acc.expr = format!("[{}]", parts.join(", "));
                    v.push(acc);
                }
                Ok(v)
            }
        }
    }

    /// producers for opaque (userdata) types, by printed name
    fn named(&self, h: &str, a: &[Ty]) -> Result<Vec<ArgVal>, String> {
        let elem = |i: usize| -> Result<ArgVal, String> {
            let t = a.get(i).ok_or("missing type argument")?;
            self.values(t, true)?.into_iter().next().ok_or_else(|| "empty alphabet".to_string())
        };
        let tail = h.rsplit('.').next().unwrap_or(h);
        Ok(match (h, tail) {
            ("std.io.File", _) => vec![
                io_val(&[("f$", "iop.open_file_with \"in.txt\" [Read]")], "f$", &["iop"]),
                io_val(&[("f$", "iop.open_file_with \"out$.txt\" [Read, Write, Create, Truncate]")], "f$", &["iop"]),
                io_val(&[("f$", "iop.open_file_with \"in.txt\" [Read]"), ("c$", "iop.close_file f$")], "f$", &["iop"]),
            ],
            ("std.random.XorShiftRng", _) => {
                let seed: Vec<String> = (1..=16).map(|i| format!("{}b", i)).collect();
                vec![val_needs(format!("(rndp.xor_shift_new [{}])", seed.join(", ")), &["rndp"])]
            }
            ("std.thread.Thread", _) => vec![
                io_val(&[("t$", "thp.new_thread ()")], "t$", &["thp", "iop"]),
                io_val(&[("t$", "thp.spawn (iop.wrap ())")], "t$", &["thp", "iop"]),
                io_val(&[("t$", "thp.spawn (iop.throw \"c06-child-throw\")")], "t$", &["thp", "iop"]),
                io_val(&[("t$", "thp.spawn (iop.wrap ())"), ("r$", "thp.resume t$")], "t$", &["thp", "iop"]),
                io_val(&[("t$", "thp.spawn (iop.flat_map (\\_ -> error \"c06-child-fail\") (iop.wrap ()))"), ("r$", "iop.catch (iop.flat_map (\\_ -> iop.wrap ()) (thp.resume t$)) (\\_ -> iop.wrap ())")], "t$", &["thp", "iop"]),
            ],
            ("std.fs.DirEntry", _) => vec![io_val(&[("d$", "fsp.read_dir \".\"")], "(arrp.index d$ 0)", &["fsp", "arrp", "iop"])],
            ("std.fs.Metadata", _) => vec![io_val(
                &[("d$", "fsp.read_dir \".\""), ("md$", "fsp.dir_entry.metadata (arrp.index d$ 0)")],
                "md$",
                &["fsp", "arrp", "iop"],
            )],
            ("std.regex.Regex", _) => ["a(b)?", "", "(\u{e9}|\u{20ac})+$", "^(x*)(x*)$"]
                .iter()
                .map(|r| {
                    let mut v = val_needs(format!("(unwrap_ok_ (rxp.new {}))", str_lit(r)), &["rxp", "unwrap"]);
                    v.prelude = true;
                    v
                })
                .collect(),
            ("std.regex.Error", _) => ["(", "a{2,1}", "\\"]
                .iter()
                .map(|r| {
                    let mut v = val_needs(format!("(unwrap_err_ (rxp.new {}))", str_lit(r)), &["rxp", "unwrap"]);
                    v.prelude = true;
                    v
                })
                .collect(),
            ("std.json.Value", _) => [
                "Null",
                "(Bool True)",
                "(Int 1)",
                "(Int (-9223372036854775808))",
                "(Float flp.nan)",
                "(Float flp.infinity)",
                "(Float 0.5)",
                "(String \"\u{10FFFF}\")",
                "(Array [])",
                "(Array [Null, Int 1, Array [String \"a\"]])",
                "(Object mapp.empty)",
                "(Object (mapp.insert \"k\" (Float flp.nan) (mapp.singleton \"\u{e9}\" Null)))",
            ]
            .iter()
            .map(|e| {
                let mut v = val_needs(e.to_string(), &["json", "flp", "mapp"]);
                v.prelude = true;
                v
            })
            .collect(),
            ("std.lazy.Lazy", _) => {
                let x = elem(0)?;
                let mut ok = wrap_val("(lzp.lazy (\\_ -> ", &x, "))");
                ok.needs.insert("lzp");
                vec![ok, val_needs("(lzp.lazy (\\_ -> error \"c06-lazy-fail\"))", &["lzp"])]
            }
            ("std.reference.Reference", _) => {
                let x = elem(0)?;
                let mut ok = wrap_val("(strefp.ref ", &x, ")");
                ok.needs.insert("strefp");
                vec![ok]
            }
            (_, "Sender") => {
                let x = elem(0)?;
                let mut v = io_val(&[], "ch$.sender", &["chp", "iop"]);
                v.setup.push(("ch$".into(), format!("chp.channel {}", x.expr)));
                v.needs.extend(x.needs.iter());
                vec![v]
            }
            (_, "Receiver") => {
                let x = elem(0)?;
                let mut empty = io_val(&[], "ch$.receiver", &["chp", "iop"]);
                empty.setup.push(("ch$".into(), format!("chp.channel {}", x.expr)));
                empty.needs.extend(x.needs.iter());
                let mut one = empty.clone();
                one.setup.push(("s$".into(), format!("chp.send ch$.sender {}", x.expr)));
                vec![empty, one]
            }
            ("std.effect.st.string.StringBuf", _) => vec![
                val_needs("(sbp.new ())", &["sbp"]),
                val_needs(format!("(let b_ = sbp.new () in let _ = sbp.push_str b_ {} in b_)", str_lit("a\u{20ac}b")), &["sbp"]),
                val_needs(format!("(let b_ = sbp.new () in let _ = sbp.push_str b_ {} in b_)", str_lit(&"x".repeat(300))), &["sbp"]),
            ],
            _ => return Err(format!("no alphabet for type `{}`", Ty::Named(h.to_string(), a.to_vec()).show())),
        })
    }
}

fn wrap_val(pre: &str, x: &ArgVal, post: &str) -> ArgVal {
    ArgVal { setup: x.setup.clone(), expr: format!("{}{}{}", pre, x.expr, post), needs: x.needs.clone(), prelude: x.prelude }
}

fn header_line(need: &str) -> &'static str {
    match need {
        "iop" => "let iop @ { OpenOptions } = import! std.io.prim\n",
        "flp" => "let flp = import! std.float.prim\n",
        "chr" => "let chr_ s_ = (import! std.string.prim).char_at s_ 0\n",
        "arrp" => "let arrp = import! std.array.prim\n",
        "lzp" => "let lzp = import! std.lazy.prim\n",
        "strefp" => "let strefp = import! std.st.reference.prim\n",
        "chp" => "let chp = import! std.channel.prim\n",
        "thp" => "let thp = import! std.thread.prim\n",
        "sbp" => "let sbp = import! std.effect.st.string.prim\n",
        "rndp" => "let rndp = import! std.random.prim\n",
        "rxp" => "let rxp = import! std.regex.prim\n",
        "fsp" => "let fsp = import! std.fs.prim\n",
        "json" => "let { Value } = import! std.json\n",
        "mapp" => "let mapp = import! std.map\n",
        "unwrap" => "let unwrap_ok_ r_ =\n    match r_ with\n    | Ok x_ -> x_\n    | Err _ -> error \"c06: expected Ok\"\nlet unwrap_err_ r_ =\n    match r_ with\n    | Ok _ -> error \"c06: expected Err\"\n    | Err e_ -> e_\n",
        _ => "",
    }
}

/// names of primitives that are never called, with the reason
fn skip_reason(full: &str) -> Option<&'static str> {
    match full {
        "std.process.prim.execute" => Some("spawns arbitrary host commands"),
        _ => None,
    }
}

#[derive(Clone, Debug)]
struct Case {
    /// what the keys name: the primitive's full name, or `import:<module>`
    subject: String,
    prim: usize,
    inst: String,
    labels: Vec<String>,
    weight: usize,
    src: String,
    run_io: bool,
    prelude: bool,
}

fn build_program(m: &ModuleInfo, p: &Prim, vals: &[&ArgVal], ret_io: bool) -> (String, bool, bool) {
    let mut needs: BTreeSet<&'static str> = BTreeSet::new();
    let mut prelude = m.prelude;
    let mut setups: Vec<(String, String)> = Vec::new();
    let mut args = Vec::new();
    for (i, v) in vals.iter().enumerate() {
        needs.extend(v.needs.iter());
        prelude |= v.prelude;
        let pos = i.to_string();
        for (var, act) in &v.setup {
            setups.push((var.replace('$', &pos), act.replace('$', &pos)));
        }
        args.push(v.expr.replace('$', &pos));
    }
    let io_mode = ret_io || !setups.is_empty();
    if !setups.is_empty() {
        needs.insert("iop");
    }
    let mut src = String::new();
    src.push_str("let { Bool, Option, Result, Ordering } = import! std.types\n");
    src.push_str("let { error } = import! std.prim\n");
    // "unwrap" uses Ok/Err; keep helper definitions after the types
    for n in &needs {
        src.push_str(header_line(n));
    }
    for pre in &m.preload {
        src.push_str(&format!("let _ = import! {}\n", pre));
    }
    if m.variant_types.is_empty() {
        src.push_str(&format!("let m_ = import! {}\n", m.name));
    } else {
        src.push_str(&format!("let m_ @ {{ {} }} = import! {}\n", m.variant_types.join(", "), m.name));
    }
    let mut call = field_access(&p.path);
    for a in &args {
        call.push(' ');
        call.push_str(a);
    }
    let body = if !setups.is_empty() {
        let mut inner = if ret_io { call } else { format!("iop.wrap ({})", call) };
        for (var, act) in setups.iter().rev() {
            inner = format!("iop.flat_map (\\{} -> {}) ({})", var, inner, act);
        }
        inner
    } else {
        call
    };
    src.push_str(&body);
    src.push('\n');
    (src, io_mode, prelude)
}

fn cartesian(sizes: &[usize], mut f: impl FnMut(&[usize])) {
    if sizes.iter().any(|s| *s == 0) {
        return;
    }
    let mut idx = vec![0usize; sizes.len()];
    loop {
        f(&idx);
        let mut k = sizes.len();
        loop {
            if k == 0 {
                return;
            }
            k -= 1;
            idx[k] += 1;
            if idx[k] < sizes[k] {
                break;
            }
            idx[k] = 0;
        }
    }
}

/// all cases of one primitive (every instantiation of its type variables at Int and String × the
/// cartesian product of the argument alphabets), or the reason why it cannot be driven
fn cases_of(g: &Gen, mods: &[ModuleInfo], pi: usize, p: &Prim) -> Result<Vec<Case>, String> {
    let full = p.full_name(mods);
    let mut vars = BTreeSet::new();
    for a in &p.args {
        a.vars(&mut vars);
    }
    let vars: Vec<String> = vars.into_iter().collect();
    if vars.len() > 3 {
        return Err("more than three type variables".into());
    }
    let mut out = Vec::new();
    let mut seen = BTreeSet::new();
    let choices = [Ty::Int, Ty::Str];
    let n_inst = 1usize << vars.len();
    for bits in 0..n_inst {
        let mut inst = BTreeMap::new();
        for (k, v) in vars.iter().enumerate() {
            inst.insert(v.clone(), choices[(bits >> k) & 1].clone());
        }
        let inst_label = vars.iter().map(|v| format!("{}={}", v, inst[v].show())).collect::<Vec<_>>().join(",");
        let mut alphabets: Vec<Vec<ArgVal>> = Vec::new();
        for (ai, a) in p.args.iter().enumerate() {
            let t = a.subst(&inst);
            let vals = if let (Ty::Int, Some((ints, _))) = (&t, g.int_overrides.get(&(full.clone(), ai))) {
                ints.iter().map(|i| pure_val(int_lit(*i))).collect()
            } else {
                g.values(&t, false).map_err(|e| format!("argument {} : {}", ai, e))?
            };
            alphabets.push(vals);
        }
        let ret_io = matches!(p.ret, Ty::IO(_));
        let sizes: Vec<usize> = alphabets.iter().map(|a| a.len()).collect();
        cartesian(&sizes, |idx| {
            let vals: Vec<&ArgVal> = idx.iter().enumerate().map(|(k, i)| &alphabets[k][*i]).collect();
            let (src, run_io, prelude) = build_program(&mods[p.module], p, &vals, ret_io);
            if seen.insert(src.clone()) {
                out.push(Case {
                    subject: full.clone(),
                    prim: pi,
                    inst: inst_label.clone(),
                    labels: vals.iter().map(|v| v.expr.chars().take(80).collect()).collect(),
                    weight: idx.iter().sum(),
                    src,
                    run_io,
                    prelude,
                });
            }
        });
    }
    Ok(out)
}

// =============================================================================================
// (a) verdicts
// =============================================================================================

fn msg_class(m: &str) -> String {
    // the stable part of a panic message: cut where a payload is quoted, digits -> N
    let mut cut = m.len();
    for q in ['`', '"', '\''] {
        if let Some(i) = m.find(q) {
            if i >= 12 && i < cut {
                cut = i;
            }
        }
    }
    let mut out = norm_digits(&m[..cut]);
    if out.chars().count() > 70 {
        out = out.chars().take(70).collect();
    }
    out.trim().trim_end_matches(':').trim().to_string()
}

fn overflow_only(m: &str) -> bool {
    ["add", "subtract", "multiply", "negate", "shift left", "shift right"].iter().any(|op| m.starts_with(&format!("attempt to {} with overflow", op)))
}

fn file_of(loc: &str) -> String {
    loc.rsplitn(2, ':').nth(1).unwrap_or(loc).to_string()
}

/// (key suffix, location, message) from the panic records of a case
fn panic_key(kind: &str, subject: &str, loc: &str, msg: &str) -> String {
    format!("{}:{}{}:{}@{}", kind, if overflow_only(msg) { "overflow-check-only:" } else { "" }, subject, msg_class(msg), file_of(loc))
}

#[derive(Clone, Debug)]
struct Verdict {
    /// outcome class for the histogram
    class: String,
    /// violation: (key, description)
    violation: Option<(String, String)>,
    rejected: bool,
    hang: bool,
    machinery: Option<String>,
}

fn judge(subject: &str, o: &CaseOutcome) -> Verdict {
    let r: Value = match o {
        CaseOutcome::Done(res) => serde_json::from_str(res).unwrap_or(Value::Null),
        CaseOutcome::Crashed(desc) => json!({"class": "WORKER-DIED", "msg": desc}),
        CaseOutcome::Hung => json!({"class": "HANG"}),
    };
    let class = r["class"].as_str().unwrap_or("BadResult").to_string();
    let mut v = Verdict { class: class.clone(), violation: None, rejected: false, hang: false, machinery: None };
    match class.as_str() {
        "HostPanic" => {
            // caught at the host boundary, so it was not raised inside a primitive's extern "C"
            // wrapper: the defect is keyed by panic site, not by the primitive that was called
            let p = &r["panics"][0];
            let loc = p["loc"].as_str().unwrap_or("?");
            let msg = p["msg"].as_str().or(r["msg"].as_str()).unwrap_or("?");
            v.violation = Some((
                format!("panic:{}{}@{}", if overflow_only(msg) { "overflow-check-only:" } else { "" }, msg_class(msg), file_of(loc)),
                format!("a Rust panic unwinds into the host (caught only by the harness's catch_unwind): `{}` at {}", msg, loc),
            ));
        }
        "ABORT" => {
            let status = r["status"].as_str().unwrap_or("?");
            let p = &r["panics"][0];
            v.violation = Some(match (p["loc"].as_str(), p["msg"].as_str()) {
                (Some(loc), Some(msg)) => (
                    panic_key("abort", subject, loc, msg),
                    format!("the process is aborted ({}): Rust panic `{}` at {} inside a non-unwinding extern \"C\" primitive wrapper", status, msg, loc),
                ),
                _ => (format!("abort:{}:{}", subject, msg_class(status)), format!("the process died ({}) without a Rust panic message", status)),
            });
        }
        "HANG" => v.hang = true,
        "WORKER-DIED" | "Machinery" | "BadPayload" | "BadResult" => v.machinery = Some(format!("{}: {}", class, r["msg"].as_str().unwrap_or("").chars().take(300).collect::<String>())),
        "Parse" | "Typecheck" | "Macro" => v.rejected = true,
        _ => {}
    }
    if v.violation.is_none() && !v.rejected && !v.hang && v.machinery.is_none() {
        if r["canary"].as_bool() != Some(true) {
            v.violation = Some((
                format!("vm-unusable:{}:after-{}", subject, class),
                format!("after the call returned {} the same VM evaluates the canary `f 1` to {} instead of 3", class, r["canary_outcome"]),
            ));
        } else if r["frames"].as_u64() != Some(1) {
            // (value slots left behind by a failed run are judged once, by the history part)
            v.violation = Some((
                format!("frames-not-unwound:{}:after-{}", subject, class),
                format!("after the call returned {} the VM is at frame level {} with {} stack slots (a fresh VM: 1)", class, r["frames"], r["stack_len"]),
            ));
        }
    }
    v
}

fn prim_payload(src: &str, run_io: bool, prelude: bool) -> String {
    // programs that can reach the file system or the process environment run in a rebuilt sandbox
    let fs = ["std.io.prim", "std.fs.prim", "std.path.prim", "std.env.prim", "std.process.prim"].iter().any(|m| src.contains(m));
    json!({"k": "prim", "src": src, "run_io": run_io, "prelude": prelude, "fs": fs, "t": 20}).to_string()
}

struct SweepResult {
    evaluations: u64,
    distinct: u64,
    capped: bool,
}

fn sweep_primitives(report: &mut Report, tier: &str, deadline: Instant) -> SweepResult {
    let thorough = tier != "quick";
    let g = Gen::new(thorough);
    let mut evaluations = 0u64;
    let mut capped = false;

    // ---- discovery: which candidate names are extern modules of this VM, and how do they load
    let (cands, notes) = scan_candidates();
    for n in notes {
        report.assume(n);
    }
    let mut attempts: Vec<(usize, bool, Vec<String>, String)> = Vec::new(); // (cand, prelude, preload, payload)
    for (ci, c) in cands.iter().enumerate() {
        let wrapper = c.strip_suffix(".prim").map(|s| s.to_string());
        let mut variants: Vec<(bool, Vec<String>)> = vec![(false, vec![]), (true, vec![])];
        if c == "std.path.prim" {
            variants.push((true, vec!["std.fs.prim".to_string()]));
        }
        if let Some(w) = wrapper {
            variants.push((true, vec![w]));
        }
        for (prelude, preload) in variants {
            let mut src = String::new();
            for p in &preload {
                src.push_str(&format!("let _ = import! {}\n", p));
            }
            src.push_str(&format!("import! {}\n", c));
            attempts.push((ci, prelude, preload, prim_payload(&src, false, prelude)));
        }
    }
    let payloads: Vec<String> = attempts.iter().map(|a| a.3.clone()).collect();
    let (import_outcomes, _) = run_cases(&payloads, 2, None);
    evaluations += payloads.len() as u64;
    let dbg = std::env::var_os("VERIF_DEBUG").is_some();
    let t_phase = Instant::now();
    if dbg {
        eprintln!("c06: discovery imports done ({} cases)", payloads.len());
    }
    let mut mods: Vec<ModuleInfo> = Vec::new();
    let mut unavailable: Vec<Value> = Vec::new();
    let mut import_violations: Vec<(String, String, Value, usize)> = Vec::new();
    for (ci, c) in cands.iter().enumerate() {
        let mut chosen: Option<(bool, Vec<String>)> = None;
        let mut why = Vec::new();
        for (ai, a) in attempts.iter().enumerate().filter(|(_, a)| a.0 == ci) {
            let o = match &import_outcomes[ai] {
                Some(o) => o,
                None => continue,
            };
            let subject = format!("import:{}", c);
            let v = judge(&subject, o);
            if v.class == "Ok" && v.violation.is_none() {
                if chosen.is_none() {
                    chosen = Some((a.1, a.2.clone()));
                }
            } else {
                let detail = match o {
                    CaseOutcome::Done(r) => serde_json::from_str::<Value>(r).ok().and_then(|r| r["msg"].as_str().map(|s| s.to_string())).unwrap_or_default(),
                    other => format!("{:?}", other),
                };
                why.push(format!("prelude={} preload={:?}: {} {}", a.1, a.2, v.class, detail.chars().take(160).collect::<String>()));
            }
            if let Some((key, what)) = v.violation {
                let src: Value = serde_json::from_str(&a.3).unwrap();
                import_violations.push((key, format!("`import! {}` (implicit prelude {}): {}", c, a.1, what), src, ai));
            }
        }
        match chosen {
            Some((prelude, preload)) => mods.push(ModuleInfo { name: c.clone(), prelude, preload, variant_types: vec![] }),
            None => unavailable.push(json!({"module": c, "attempts": why})),
        }
    }
    // ---- walk the record types (in this process: the imports above were survived by a worker)
    let mut prims: Vec<Prim> = Vec::new();
    let mut constants = 0u64;
    for (mi, m) in mods.iter_mut().enumerate() {
        let vm = vmkit::make_vm(settings(m.prelude, false));
        let mut src = String::new();
        for p in &m.preload {
            src.push_str(&format!("let _ = import! {}\n", p));
        }
        src.push_str(&format!("import! {}\n", m.name));
        let r = std::panic::catch_unwind(std::panic::AssertUnwindSafe(|| {
            vm.run_expr::<gluon::vm::api::OpaqueValue<RootedThread, gluon::vm::api::Hole>>("discover", &src)
        }));
        let typ = match r {
            Ok(Ok((_, t))) => t,
            _ => {
                report.machinery(format!("discovery: module {} loaded in a worker but not in the parent", m.name));
                continue;
            }
        };
        let env = vm.get_env();
        let resolved = gluon::base::resolve::remove_aliases_cow(&env, &mut NullInterner, &typ);
        let resolved: &ArcType = &resolved;
        for tf in gluon::base::types::type_field_iter(resolved) {
            let body = tf.typ.unresolved_type();
            let mut b = body.clone();
            while let Type::Forall(_, i) = &*b.clone() {
                b = i.clone();
            }
            if let Type::Variant(_) = &*b {
                m.variant_types.push(tf.name.declared_name().to_string());
            }
        }
        drop(env);
        let mut path = Vec::new();
        walk_fields(&vm, mi, &typ, &mut path, &mut prims, &mut constants);
    }
    if dbg {
        eprintln!("c06: type walk done {:?}", t_phase.elapsed());
    }
    report.set("sweep.candidate_names", json!(cands));
    report.set("sweep.extern_modules", json!(mods.iter().map(|m| json!({"module": m.name, "needs_implicit_prelude": m.prelude, "preload": m.preload})).collect::<Vec<_>>()));
    report.set("sweep.not_loadable", json!(unavailable));
    report.set("sweep.primitives_found", prims.len() as u64);
    report.set("sweep.constant_fields", constants);

    // ---- enumerate and run, module by module
    let mut skipped: Vec<Value> = Vec::new();
    let mut per_prim: BTreeMap<String, Value> = BTreeMap::new();
    let mut classes: BTreeMap<String, u64> = BTreeMap::new();
    let mut distinct = 0u64;
    // key -> (count, minimal case, description)
    let mut found: BTreeMap<String, (u64, Case, String)> = BTreeMap::new();
    let mut rejected: Vec<Value> = Vec::new();
    let mut hangs: Vec<Value> = Vec::new();
    let mut driven = 0u64;
    let mut machinery_seen = 0u64;
    let mut class_samples: BTreeMap<String, (u64, String)> = BTreeMap::new();
    let mut subjects_of: BTreeMap<String, BTreeSet<String>> = BTreeMap::new();
    let mut sample_first: Option<Value> = None;
    let mut sample_last: Option<Value> = None;
    let mut sample_median: Option<Value> = None;
    let groups: Vec<Vec<usize>> = if thorough { (0..mods.len()).map(|m| vec![m]).collect() } else { vec![(0..mods.len()).collect()] };
    for group in groups {
        let mi = group[0];
        let mut cases: Vec<Case> = Vec::new();
        for (pi, p) in prims.iter().enumerate().filter(|(_, p)| group.contains(&p.module)) {
            let full = p.full_name(&mods);
            if let Some(r) = skip_reason(&full) {
                skipped.push(json!({"primitive": full, "reason": r}));
                continue;
            }
            match cases_of(&g, &mods, pi, p) {
                Ok(cs) => {
                    driven += 1;
                    per_prim.insert(full, json!({"args": p.args.iter().map(|a| a.show()).collect::<Vec<_>>(), "cases": cs.len()}));
                    cases.extend(cs);
                }
                Err(e) => skipped.push(json!({"primitive": full, "type": Ty::Fun(p.args.clone(), Box::new(p.ret.clone())).show(), "reason": e})),
            }
        }
        if cases.is_empty() {
            continue;
        }
        // a capped run should not always see the same prefix: VERIF_SEED rotates the order
        if report.seed != 0 {
            let k = (report.seed as usize).wrapping_mul(7919) % cases.len();
            cases.rotate_left(k);
        }
        if std::env::var_os("VERIF_C06_COUNT_ONLY").is_some() {
            eprintln!("c06: {} .. : {} cases", mods[mi].name, cases.len());
            continue;
        }
        if Instant::now() >= deadline {
            capped = true;
            report.set("sweep.cap_hit_before_module", mods[mi].name.clone());
            break;
        }
        let payloads: Vec<String> = cases.iter().map(|c| prim_payload(&c.src, c.run_io, c.prelude)).collect();
        if dbg {
            eprintln!("c06: {} cases generated {:?}", payloads.len(), t_phase.elapsed());
        }
        if let Some(f) = std::env::var_os("VERIF_C06_DUMP") {
            let text: String = payloads.iter().enumerate().map(|(i, p)| format!("{}\t{}\n", i, serde_json::to_string(p).unwrap())).collect();
            let _ = std::fs::write(f, text);
        }
        let t_mod = Instant::now();
        let sb: usize = std::env::var("VERIF_C06_SB").ok().and_then(|s| s.parse().ok()).unwrap_or(8);
        let (outcomes, was_capped) = run_cases(&payloads, sb, Some(deadline));
        capped |= was_capped;
        if dbg {
            eprintln!("c06: module {} cases {} wall {:?}", mods[mi].name, payloads.len(), t_mod.elapsed());
        }
        for (i, o) in outcomes.iter().enumerate() {
            let o = match o {
                Some(o) => o,
                None => continue,
            };
            evaluations += 1;
            let c = &cases[i];
            let full = prims[c.prim].full_name(&mods);
            let v = judge(&full, o);
            *classes.entry(v.class.clone()).or_insert(0) += 1;
            if let CaseOutcome::Done(r) = o {
                if v.class != "Ok" {
                    let r: Value = serde_json::from_str(r).unwrap_or(Value::Null);
                    let sig = format!("{} {}", v.class, msg_class(r["msg"].as_str().unwrap_or("")));
                    let e = class_samples.entry(sig).or_insert((0u64, format!("{} {}", full, c.labels.join(" "))));
                    e.0 += 1;
                }
            }
            let case_json = json!({"primitive": full, "instantiation": c.inst, "args": c.labels, "outcome": match o { CaseOutcome::Done(r) => serde_json::from_str::<Value>(r).unwrap_or(Value::Null), other => json!(format!("{:?}", other)) }});
            if sample_first.is_none() {
                sample_first = Some(case_json.clone());
            }
            if let Some(m) = &v.machinery {
                if machinery_seen < 5 {
                    report.machinery(format!("{} {:?}: {}", full, c.labels, m));
                }
                machinery_seen += 1;
                continue;
            }
            if v.rejected {
                if rejected.len() < 20 {
                    rejected.push(json!({"case": case_json, "source": c.src}));
                }
                continue;
            }
            if !p_is_constant(&prims[c.prim]) {
                distinct += 1;
            }
            if i == outcomes.len() / 2 {
                sample_median = Some(case_json.clone());
            }
            sample_last = Some(case_json.clone());
            if v.hang {
                hangs.push(case_json.clone());
            }
            if let Some((key, what)) = v.violation {
                subjects_of.entry(key.clone()).or_default().insert(full.clone());
                let e = found.entry(key).or_insert((0, c.clone(), what.clone()));
                e.0 += 1;
                if c.weight < e.1.weight {
                    e.1 = c.clone();
                    e.2 = what;
                }
            }
        }
    }
    // import violations join the same confirmation path
    for (key, what, payload, ai) in import_violations {
        let c = Case {
            subject: format!("import:{}", cands[attempts[ai].0]),
            prim: usize::MAX,
            inst: String::new(),
            labels: vec![],
            weight: 0,
            src: payload["src"].as_str().unwrap_or("").to_string(),
            run_io: false,
            prelude: payload["prelude"].as_bool().unwrap_or(false),
        };
        let e = found.entry(key).or_insert((0, c, what));
        e.0 += 1;
    }

    if let Some(s) = sample_first.take() {
        report.sample(json!({"sweep_first": s}));
    }
    if let Some(s) = sample_median.take() {
        report.sample(json!({"sweep_median": s}));
    }
    if let Some(s) = sample_last.take() {
        report.sample(json!({"sweep_last": s}));
    }
    // ---- confirmation: the minimal case of every key once more, in fresh workers
    let keys: Vec<String> = found.keys().cloned().collect();
    let confirm: Vec<String> = keys.iter().map(|k| prim_payload(&found[k].1.src, found[k].1.run_io, found[k].1.prelude)).collect();
    let (confirm_outcomes, _) = run_cases(&confirm, 1, None);
    let mut by_key = Vec::new();
    for (i, k) in keys.iter().enumerate() {
        let (count, case, what) = &found[k];
        let subject = case.subject.clone();
        let again = confirm_outcomes[i].as_ref().map(|o| judge(&subject, o));
        let same = again.as_ref().and_then(|v| v.violation.as_ref()).map(|(k2, _)| k2 == k).unwrap_or(false);
        let call = if case.prim == usize::MAX { case.src.trim().to_string() } else { format!("{} {}", subject, case.labels.join(" ")) };
        if same {
            let subs: Vec<String> = subjects_of.get(k).map(|s| s.iter().cloned().collect()).unwrap_or_default();
            by_key.push(json!({"key": k, "cases": count, "minimal": call, "primitives": subs}));
            report.add("violating_cases_total", count.saturating_sub(1));
            report.violation(
                k.clone(),
                format!("`{}`{}: {} ({} case(s) of the sweep share this key)", call, if case.inst.is_empty() { String::new() } else { format!(" [{}]", case.inst) }, what, count),
                json!({"engine": "c06", "part": "prim", "subject": subject, "args": case.labels, "src": case.src, "run_io": case.run_io, "prelude": case.prelude, "expected_key": k}),
            );
            if by_key.len() <= 8 {
                report.sample(json!({"violating_case": call, "key": k}));
            }
        } else {
            report.machinery(format!("violation `{}` ({}) did not reproduce in a fresh worker: second verdict {:?}", k, call, again));
        }
    }
    if !rejected.is_empty() {
        report.machinery(format!("{} generated call(s) were not accepted by the front end (generator defect), first: {}", rejected.len(), rejected[0]));
    }
    report.set("sweep.primitives_driven", driven);
    report.set("sweep.primitives_skipped", json!(skipped));
    report.set("sweep.cases_per_primitive", json!(per_prim));
    report.set("sweep.outcome_classes", json!(classes));
    report.set("sweep.findings_by_key", json!(by_key));
    report.set("sweep.error_value_messages", json!(class_samples.iter().map(|(k, (n, ex))| json!({"outcome": k, "cases": n, "first": ex})).collect::<Vec<_>>()));
    report.set("sweep.hangs", json!(hangs));
    report.set("sweep.int_alphabet", json!(int_alphabet(thorough)));
    report.set("sweep.string_alphabet", json!(string_alphabet(thorough).iter().map(|s| if s.len() > 40 { format!("{}…×{}", s.chars().next().unwrap(), s.len()) } else { s.clone() }).collect::<Vec<_>>()));
    for ((p, i), (vals, why)) in &g.int_overrides {
        report.assume(format!("{} argument {}: Int alphabet replaced by {:?} — {}", p, i, vals, why));
    }
    SweepResult { evaluations, distinct, capped }
}

fn p_is_constant(p: &Prim) -> bool {
    p.args.is_empty() && !matches!(p.ret, Ty::IO(_))
}

// =============================================================================================
// (b) histories
// =============================================================================================

const HEAD: &str = "let { Bool, Option } = import! std.types\nlet { error } = import! std.prim\n";

#[derive(Clone, Debug)]
struct StepDef {
    id: &'static str,
    /// the evaluation is meant to fail, with this outcome class
    fails: Option<&'static str>,
    src: String,
    run_io: bool,
    prelude: bool,
    /// memory limit for this evaluation: allocated-after-collect + this many bytes
    mem_limit: Option<usize>,
    stack_limit: Option<u32>,
    /// the host requests an interrupt before the evaluation
    interrupt: bool,
    what: &'static str,
}

fn step(id: &'static str, fails: Option<&'static str>, src: String, what: &'static str) -> StepDef {
    StepDef { id, fails, src, run_io: false, prelude: false, mem_limit: None, stack_limit: None, interrupt: false, what }
}

/// the alphabet of evaluations; the first `quick_len` are used by the quick tier
fn step_defs() -> Vec<StepDef> {
    let deep = "rec let f n = if n #Int== 0 then 0 else 1 #Int+ f (n #Int- 1)\nin f ";
    let alloc = "let array = import! std.array.prim\nrec let f n a = if n #Int== 0 then array.len a else f (n #Int- 1) (array.append a [n])\nin f ";
    let mut v = vec![
        step("error", Some("Panic"), format!("{}let x : Int = error \"x\"\nx\n", HEAD), "`error \"x\"`"),
        step("overflow", Some("Overflow"), "9223372036854775807 #Int+ 1\n".into(), "arithmetic overflow"),
        step("match", Some("Panic"), format!("{}type V = | A | B Int\nlet v = B 1\nmatch v with\n| A -> 1\n", HEAD), "unmatched pattern"),
        StepDef {
            mem_limit: Some(20_000),
            ..step(
                "oom",
                Some("OutOfMemory"),
                "rec let f n k = if n #Int== 0 then k 0 else f (n #Int- 1) (\\r -> k (r #Int+ 1))\nin f 5000 (\\r -> r)\n".into(),
                "out of memory (closure allocation) under a memory limit of allocated+20000 bytes",
            )
        },
        StepDef { stack_limit: Some(300), ..step("stack", Some("StackOverflow"), format!("{}100000\n", deep), "stack overflow under a stack limit of 300 slots") },
        step("prim", Some("Panic"), "let array = import! std.array.prim\narray.index [1] 5\n".into(), "primitive returning an error value"),
        step("type", Some("Typecheck"), "1 #Int+ \"a\"\n".into(), "type error"),
        step("parse", Some("Parse"), "let x = in\n".into(), "parse error"),
        step(
            "nested",
            Some("Panic"),
            format!("{}let g k x = if x #Int< 0 then error \"neg\" else k x\nlet h = g (\\y -> y #Int+ 1)\nlet apply f = f (0 #Int- 1)\n1 #Int+ apply h\n", HEAD),
            "failure inside a partial application called through a closure, in a non-tail position",
        ),
        StepDef {
            run_io: true,
            ..step("io", Some("Panic"), "let io = import! std.io.prim\nio.flat_map (\\x -> io.throw \"io-boom\") (io.wrap 1)\n".into(), "uncaught IO exception with run_io")
        },
        StepDef { interrupt: true, ..step("interrupt", Some("Interrupted"), format!("{}1000\n", deep), "evaluation interrupted by the host (Thread::interrupt)") },
        step("rec", None, format!("{}100\n", deep), "canary: recursion"),
        step("alloc", None, format!("{}200 []\n", alloc), "canary: allocation"),
        StepDef {
            prelude: true,
            ..step(
                "prelude",
                None,
                "let { List, of } = import! std.list\nlet map = import! std.map\nlet m = map.insert \"a\" 1 map.empty\n(map.find \"a\" m, of [1, 2, 3], 1 + 2)\n".into(),
                "canary: import std.list and std.map with the implicit prelude",
            )
        },
        // thorough only
        step("lazy", Some("Message"), format!("{}let l = import! std.lazy.prim\nl.force (l.lazy (\\_ -> 1 #Int+ error \"lz\"))\n", HEAD), "failure inside a primitive's callback (lazy force)"),
        step("import", Some("Macro"), "import! no.such.module\n".into(), "import of a missing module"),
        StepDef {
            run_io: true,
            ..step("catch", Some("Message"), format!("{}let io = import! std.io.prim\nio.catch (io.throw \"a\") (\\_ -> error \"handler\")\n", HEAD), "io.catch whose handler fails")
        },
        StepDef { mem_limit: Some(20_000), ..step("oom-prim", Some("Panic Thread is out of memory"), format!("{}2000 []\n", alloc), "out of memory inside a primitive (array.append) under a memory limit") },
    ];
    for d in v.iter_mut() {
        if !d.src.ends_with('\n') {
            d.src.push('\n');
        }
    }
    v
}

const QUICK_STEPS: usize = 14;

fn exec_step(vm: &RootedThread, d: &StepDef) -> Outcome {
    vmkit::apply_settings(vm, settings(d.prelude, d.run_io));
    if let Some(extra) = d.mem_limit {
        vm.collect();
        let base = vm.allocated_memory();
        vm.set_memory_limit(base + extra);
    }
    if let Some(l) = d.stack_limit {
        vm.context().set_max_stack_size(l);
    }
    if d.interrupt {
        vm.interrupt();
    }
    let o = vmkit::run(vm, "main", &d.src);
    if d.mem_limit.is_some() {
        vm.set_memory_limit(usize::MAX);
    }
    if d.stack_limit.is_some() {
        vm.context().set_max_stack_size(u32::MAX);
    }
    o
}

fn outcome_text(o: &Outcome) -> String {
    match o {
        Outcome::Ok(w, t) => format!("Ok {} : {}", w, vmkit::first_line(t)),
        Outcome::Err(k, m) => format!("{:?} {}", k, norm_digits(m)),
    }
}

fn norm_digits(m: &str) -> String {
    let mut out = String::new();
    let mut last = false;
    for c in m.chars() {
        if c.is_ascii_digit() {
            if !last {
                out.push('N');
            }
            last = true;
        } else {
            last = false;
            out.push(c);
        }
    }
    out
}

const WARMUP: &str = "let _ = import! std.types\nlet _ = import! std.prim\nlet _ = import! std.array.prim\nlet _ = import! std.io.prim\nlet _ = import! std.lazy.prim\n0\n";

/// One history on one VM, then the canary suite, then collect.
fn worker_hist(v: &Value) -> Value {
    let defs = step_defs();
    let ids: Vec<usize> = v["steps"].as_array().map(|a| a.iter().filter_map(|x| x.as_u64().map(|x| x as usize)).collect()).unwrap_or_default();
    let vm = vmkit::make_vm(settings(false, false));
    let _ = vmkit::run(&vm, "warm", WARMUP);
    let mut outs = Vec::new();
    let mut shapes = Vec::new();
    for i in &ids {
        let o = exec_step(&vm, &defs[*i]);
        outs.push(outcome_text(&o));
        drop(o);
        let (f, l) = stack_shape(&vm);
        shapes.push(json!([f, l]));
    }
    let mut canaries = Vec::new();
    for d in defs.iter().filter(|d| d.fails.is_none()) {
        let o = exec_step(&vm, d);
        canaries.push(outcome_text(&o));
    }
    let (frames, stack_len) = stack_shape(&vm);
    vmkit::apply_settings(&vm, settings(false, false));
    vm.collect();
    let mem_raw = vm.allocated_memory();
    // value slots that failed runs left on the stack are reported on their own; they are dropped
    // through the public stack API here so that the memory oracle sees only *other* leaks
    vm.context().stack_frame::<gluon::vm::stack::State>().clear();
    vm.collect();
    let mem = vm.allocated_memory();
    json!({"class": "Hist", "outs": outs, "shapes": shapes, "canaries": canaries, "frames": frames, "stack_len": stack_len, "mem_raw": mem_raw, "mem": mem, "panics": panics_json()})
}

fn hist_payload(steps: &[usize], secs: u64) -> String {
    json!({"k": "hist", "steps": steps, "t": secs}).to_string()
}

struct HistResult {
    histories: u64,
    transitions: u64,
    nontrivial: u64,
    capped: bool,
    depth_completed: usize,
}

fn explore_histories(report: &mut Report, tier: &str, deadline: Instant) -> HistResult {
    let thorough = tier != "quick";
    let defs = step_defs();
    let n = if thorough { defs.len() } else { QUICK_STEPS };
    let max_depth: usize = std::env::var("VERIF_C06_DEPTH").ok().and_then(|s| s.parse().ok()).unwrap_or(if thorough { 4 } else { 3 });
    let name = |h: &[usize]| -> String { format!("[{}]", h.iter().map(|i| defs[*i].id).collect::<Vec<_>>().join(", ")) };
    report.set(
        "histories.alphabet",
        json!(defs.iter().take(n).map(|d| json!({"id": d.id, "what": d.what, "expected": d.fails.unwrap_or("Ok")})).collect::<Vec<_>>()),
    );
    let mut res = HistResult { histories: 0, transitions: 0, nontrivial: 0, capped: false, depth_completed: 0 };
    // results of all completed histories: history -> result
    let mut table: BTreeMap<Vec<usize>, Value> = BTreeMap::new();
    let mut found: BTreeMap<String, (u64, Vec<usize>, String)> = BTreeMap::new();
    let mut probe_outcomes: BTreeSet<String> = BTreeSet::new();
    let mut slot_classes: BTreeSet<String> = BTreeSet::new();
    // batches: all histories up to depth 2 together, then one batch per depth
    let mut by_depth: Vec<Vec<Vec<usize>>> = vec![vec![vec![]]];
    for d in 1..=max_depth {
        let mut next = Vec::with_capacity(by_depth[d - 1].len() * n);
        for h in &by_depth[d - 1] {
            for s in 0..n {
                let mut h2 = h.clone();
                h2.push(s);
                next.push(h2);
            }
        }
        by_depth.push(next);
    }
    let first = max_depth.min(2);
    let mut batches: Vec<(usize, Vec<Vec<usize>>)> = vec![(first, by_depth[..=first].concat())];
    for d in first + 1..=max_depth {
        batches.push((d, std::mem::take(&mut by_depth[d])));
    }
    let mut per_depth = Vec::new();
    let mut machinery_seen = 0;
    for (depth, level) in batches {
        if Instant::now() >= deadline {
            res.capped = true;
            break;
        }
        let payloads: Vec<String> = level.iter().map(|h| hist_payload(h, 60)).collect();
        let hb: usize = std::env::var("VERIF_C06_HB").ok().and_then(|s| s.parse().ok()).unwrap_or(4);
        let (outcomes, was_capped) = run_cases(&payloads, hb, Some(deadline));
        let mut done_here = 0u64;
        for (i, o) in outcomes.iter().enumerate() {
            let h = &level[i];
            let r: Value = match o {
                None => continue,
                Some(CaseOutcome::Done(r)) => serde_json::from_str(r).unwrap_or(Value::Null),
                Some(CaseOutcome::Crashed(d)) => json!({"class": "WORKER-DIED", "msg": d}),
                Some(CaseOutcome::Hung) => json!({"class": "HANG"}),
            };
            done_here += 1;
            res.histories += 1;
            res.transitions += h.len() as u64;
            match r["class"].as_str() {
                Some("Hist") => {
                    table.insert(h.clone(), r);
                }
                Some("ABORT") => {
                    let p = &r["panics"][0];
                    let key = format!("hist:abort:{}@{}", msg_class(p["msg"].as_str().unwrap_or("?")), file_of(p["loc"].as_str().unwrap_or("?")));
                    let e = found.entry(key).or_insert((0, h.clone(), format!("the process is aborted ({}) {}", r["status"], p)));
                    e.0 += 1;
                }
                Some("HANG") => {
                    let e = found.entry(format!("hist:hang:last={}", h.last().map(|i| defs[*i].id).unwrap_or("-"))).or_insert((0, h.clone(), "the history does not finish within 60 s".to_string()));
                    e.0 += 1;
                }
                other => {
                    if machinery_seen < 5 {
                        report.machinery(format!("history {}: {:?} {}", name(h), other, r["msg"]));
                    }
                    machinery_seen += 1;
                }
            }
        }
        per_depth.push(json!({"up_to_depth": depth, "histories": level.len(), "executed": done_here}));
        if was_capped || done_here < level.len() as u64 {
            res.capped = true;
            break;
        }
        res.depth_completed = depth;
    }
    // ---- oracle
    let fresh = table.get(&vec![]).cloned();
    let fresh = match fresh {
        Some(f) => f,
        None => {
            report.machinery("the empty history (fresh VM + canaries) did not run");
            return res;
        }
    };
    // self-test of the alphabet: every step does on a fresh VM what it is meant to do
    for s in 0..n {
        if let Some(r) = table.get(&vec![s]) {
            let got = r["outs"][0].as_str().unwrap_or("");
            let want = defs[s].fails.unwrap_or("Ok");
            if !got.starts_with(want) {
                report.machinery(format!("alphabet self-test: step `{}` on a fresh VM gives `{}` instead of {}", defs[s].id, got, want));
            }
        }
    }
    for (h, r) in &table {
        if h.is_empty() {
            continue;
        }
        let failing: Vec<usize> = h.iter().cloned().filter(|i| defs[*i].fails.is_some()).collect();
        if !failing.is_empty() {
            res.nontrivial += 1;
        }
        probe_outcomes.insert(format!("{}|{}|{}|{}", r["canaries"], r["frames"], r["stack_len"], r["outs"].as_array().and_then(|a| a.last()).cloned().unwrap_or(Value::Null)));
        let mut bad: Vec<(String, String)> = Vec::new(); // (aspect, description)
        // 1. every evaluation of the history gives what it gives on a fresh VM
        for (k, s) in h.iter().enumerate() {
            let alone = table.get(&vec![*s]).map(|x| x["outs"][0].clone()).unwrap_or(Value::Null);
            if k > 0 && r["outs"][k] != alone {
                bad.push((
                    "vm-differs-from-fresh".into(),
                    format!("evaluation #{} (`{}`) gives `{}` but `{}` on a fresh VM", k + 1, defs[*s].id, r["outs"][k].as_str().unwrap_or("?"), alone.as_str().unwrap_or("?")),
                ));
                break;
            }
        }
        // 2. the canary suite afterwards
        if r["canaries"] != fresh["canaries"] && bad.is_empty() {
            bad.push(("vm-differs-from-fresh".into(), format!("the canary suite gives {} but {} on a fresh VM", r["canaries"], fresh["canaries"])));
        }
        // 3. frames and value stack
        let mut frames_bad = r["frames"] != fresh["frames"];
        let mut slots: Vec<u64> = Vec::new();
        for k in 0..h.len() {
            frames_bad |= r["shapes"][k][0] != fresh["frames"];
            slots.push(r["shapes"][k][1].as_u64().unwrap_or(0));
        }
        if frames_bad {
            bad.push(("frames-not-unwound".into(), format!("[frame level, stack slots] after each evaluation: {}, after the canaries {}/{}; a fresh VM has frame level {}", r["shapes"], r["frames"], r["stack_len"], fresh["frames"])));
        } else if r["stack_len"] != fresh["stack_len"] || slots.iter().any(|x| Some(*x) != fresh["stack_len"].as_u64()) {
            if h.len() == 1 {
                slot_classes.insert(defs[h[0]].id.to_string());
            }
            bad.push((
                "stack-slots-not-released".into(),
                format!(
                    "value slots of failed runs stay on the thread's stack: slots after each evaluation {:?}, {} after the canary suite (fresh VM: {}); they keep {} bytes reachable after collect()",
                    slots,
                    r["stack_len"],
                    fresh["stack_len"],
                    r["mem_raw"].as_i64().unwrap_or(0) - r["mem"].as_i64().unwrap_or(0)
                ),
            ));
        }
        // 4. memory: as if only the successful evaluations had run
        let ok_only: Vec<usize> = h.iter().cloned().filter(|i| defs[*i].fails.is_none()).collect();
        if ok_only.len() != h.len() && r["canaries"] == fresh["canaries"] {
            if let Some(reference) = table.get(&ok_only) {
                if r["mem"] != reference["mem"] {
                    bad.push((
                        "memory-not-reclaimed".into(),
                        format!("after collect() allocated_memory() is {} but {} on a VM that ran only the successful evaluations {}", r["mem"], reference["mem"], name(&ok_only)),
                    ));
                }
            }
        }
        for (aspect, what) in bad {
            // one key per defect: blame the first failing step that shows the aspect on its own
            let base_aspect = aspect.split(':').next().unwrap_or("").to_string();
            let culprit = failing.iter().find(|f| single_shows(&table, &defs, **f, &base_aspect, &fresh)).cloned();
            let key = match culprit {
                _ if base_aspect == "stack-slots-not-released" => "hist:stack-slots-not-released:after-failed-evaluation".to_string(),
                Some(f) => format!("hist:{}:after={}", base_aspect, defs[f].id),
                None => format!("hist:{}:history={}", aspect, name(h)),
            };
            let e = found.entry(key).or_insert((0, h.clone(), what.clone()));
            e.0 += 1;
            if h.len() < e.1.len() {
                e.1 = h.clone();
                e.2 = what;
            }
        }
    }
    let mut sample_hist: Vec<&Vec<usize>> = table.keys().collect();
    sample_hist.sort_by_key(|h| (h.len(), (*h).clone()));
    for idx in [1usize, sample_hist.len() / 2, sample_hist.len().saturating_sub(1)] {
        if let Some(h) = sample_hist.get(idx) {
            report.sample(json!({"history": name(h), "result": table[*h]}));
        }
    }
    // ---- confirmation in fresh workers
    let keys: Vec<String> = found.keys().cloned().collect();
    let mut confirm: Vec<String> = Vec::new();
    for k in &keys {
        confirm.push(hist_payload(&found[k].1, 60));
    }
    let (confirm_outcomes, _) = run_cases(&confirm, 1, None);
    for (i, k) in keys.iter().enumerate() {
        let (count, h, what) = &found[k];
        let again: Value = match &confirm_outcomes[i] {
            Some(CaseOutcome::Done(r)) => serde_json::from_str(r).unwrap_or(Value::Null),
            _ => Value::Null,
        };
        let same = match table.get(h) {
            Some(first) => again["outs"] == first["outs"] && again["canaries"] == first["canaries"] && again["mem"] == first["mem"] && again["frames"] == first["frames"],
            None => again["class"].as_str() == Some("ABORT") || again["class"].as_str() == Some("HANG"),
        };
        if same {
            report.add("violating_cases_total", count.saturating_sub(1));
            report.violation(
                k.clone(),
                format!("history {}: {} ({} histories share this key)", name(h), what, count),
                json!({"engine": "c06", "part": "hist", "steps": h.iter().map(|i| defs[*i].id).collect::<Vec<_>>(), "expected_key": k}),
            );
            report.sample(json!({"violating_history": name(h), "key": k}));
        } else {
            report.machinery(format!("history violation `{}` ({}) did not reproduce: {}", k, name(h), again));
        }
    }
    report.set("histories.per_depth", json!(per_depth));
    report.set("histories.failure_classes_leaving_stack_slots", json!(slot_classes));
    report.set("histories.depth_completed", res.depth_completed as u64);
    report.set("histories.distinct_probe_outcomes", probe_outcomes.len() as u64);
    report.set("histories.fresh_vm_reference", fresh.clone());
    res
}

/// does the one-step history [f] show the aspect by itself?
fn single_shows(table: &BTreeMap<Vec<usize>, Value>, defs: &[StepDef], f: usize, aspect: &str, fresh: &Value) -> bool {
    let r = match table.get(&vec![f]) {
        Some(r) => r,
        None => return false,
    };
    let _ = defs;
    match aspect {
        "vm-differs-from-fresh" => r["canaries"] != fresh["canaries"],
        "frames-not-unwound" => r["shapes"][0][0] != fresh["frames"] || r["frames"] != fresh["frames"],
        "memory-not-reclaimed" => r["mem"] != fresh["mem"],
        _ => false,
    }
}

// =============================================================================================
// entry points
// =============================================================================================

pub fn run(tier: &str) -> Report {
    let mut report = Report::new("C06", tier, "exploration");
    let deadline = par::deadline_for(tier, 40, 1500);
    let base = new_sandbox_base();
    // an allocation failure prints a symbolised backtrace before aborting unless told not to
    std::env::set_var("RUST_BACKTRACE", "0");
    let start = Instant::now();
    let total = deadline.saturating_duration_since(start);
    let quick = tier == "quick";
    let sweep_deadline = start + total.mul_f64(if quick { 0.42 } else { 0.45 });
    let hist_deadline = start + total.mul_f64(if quick { 0.80 } else { 0.93 });
    let only = std::env::var("VERIF_C06_PART").unwrap_or_default();
    let s = if only == "hist" { SweepResult { evaluations: 0, distinct: 0, capped: false } } else { sweep_primitives(&mut report, tier, sweep_deadline) };
    report.set("sweep.wall_s", start.elapsed().as_secs_f64());
    let t_hist = Instant::now();
    let h = if only == "sweep" {
        HistResult { histories: 0, transitions: 0, nontrivial: 0, capped: false, depth_completed: 0 }
    } else {
        explore_histories(&mut report, tier, hist_deadline)
    };
    report.set("histories.wall_s", t_hist.elapsed().as_secs_f64());
    report.set("evaluations", s.evaluations + h.histories);
    report.set("distinct_nontrivial", s.distinct + h.nontrivial);
    report.set("sweep.evaluations", s.evaluations);
    report.set("sweep.distinct_nontrivial", s.distinct);
    report.set("histories.nontrivial", h.nontrivial);
    report.set("states", h.histories);
    report.set("transitions", h.transitions);
    report.set("traces_validated_against_impl", h.histories);
    report.set("exhaustive", !s.capped && !h.capped);
    report.set("wall_cap_hit", s.capped || h.capped);
    report.set("sweep.exhaustive", !s.capped);
    report.set("histories.exhaustive", !h.capped);
    report.set(
        "rule",
        "(a) sweep: every function field (and IO-typed field) of every extern module found at run time, instantiated at Int and String for each type variable, \
         x the full cartesian product of the per-type alphabets (sweep.int_alphabet, sweep.string_alphabet, floats, chars, bytes, arrays, Option/Result/IO/function/opaque producers); \
         one call per fresh VM in a worker process. A case counts as non-trivial when the generated call was accepted by the type checker and executed and the field is not a constant \
         (counted from the workers' answers; the outcome histogram sweep.outcome_classes shows how many of them ended in an error value, a host panic or an abort). \
         (b) histories: every sequence of length 0..d over histories.alphabet on one VM (no dedup: states = histories), each followed by the canary suite, collect() and the memory probe; \
         non-trivial = the history contains at least one failing evaluation",
    );
    report.assume("build profile of the harness: opt-level 2 with debug-assertions and overflow-checks ON (the profile semantics the repository's own tests run under); findings whose panic exists only because of overflow checks carry `overflow-check-only:` in their key");
    report.assume("a worker process per core runs the cases in forked copies of itself; stdin/stdout/stderr of the subject are /dev/null (so read_char/read_line see EOF and print cannot block); programs that can reach the file system run with a freshly built temp directory as cwd; std.process.prim.execute is never called");
    report.assume("what a primitive returns is not compared with a model: only crash/panic freedom, error-as-value and the usability of the VM afterwards are judged; a case that exceeds its time limit is listed under sweep.hangs, not judged");
    report.assume("error values whose text belongs to the VM's internal-invariant family (e.g. `Attempted to exit scope above current` from io.run_expr/load_script of a failing program) are still error values and therefore not violations of this property; they are listed in sweep.error_value_messages");
    report.assume("a Rust panic that unwinds to the host (caught by the harness's catch_unwind) is keyed by panic site and message class only, because it was by construction not raised inside a primitive's non-unwinding wrapper; an abort is keyed by primitive + message class + file");
    report.assume("histories: error-message texts are compared with digits normalised (out-of-memory messages embed byte counts); limits (memory/stack) are set for one evaluation and lifted afterwards as an embedder would; the memory oracle is differential against the VM that ran only the successful evaluations of the same history, after dropping the value slots that failed runs leave on the stack (those are reported by their own key)");
    let _ = std::fs::remove_dir_all(&base);
    report
}

pub fn replay(v: &Value) -> Report {
    let mut report = Report::new("C06", "quick", "exploration");
    let base = new_sandbox_base();
    std::env::set_var("RUST_BACKTRACE", "0");
    if v["part"].as_str() == Some("prim") {
        let src = v["src"].as_str().unwrap_or("");
        println!("program:\n{}", src);
        let payload = prim_payload(src, v["run_io"].as_bool().unwrap_or(false), v["prelude"].as_bool().unwrap_or(false));
        let (outcomes, _) = run_cases(&[payload], 1, None);
        if let Some(o) = &outcomes[0] {
            println!("observed: {:?}", o);
            let verdict = judge(v["subject"].as_str().unwrap_or("?"), o);
            if let Some((k, what)) = verdict.violation {
                println!("verdict: {} :: {}", k, what);
                report.violation(k, what, v.clone());
            }
        }
    }
    if v["part"].as_str() == Some("hist") {
        let defs = step_defs();
        let steps: Vec<usize> = v["steps"].as_array().map(|a| a.iter().filter_map(|x| x.as_str().and_then(|id| defs.iter().position(|d| d.id == id))).collect()).unwrap_or_default();
        for i in &steps {
            println!(
                "--- step `{}` ({}){}{}{}\n{}",
                defs[*i].id,
                defs[*i].what,
                if defs[*i].run_io { " [run_io]" } else { "" },
                if defs[*i].prelude { " [implicit prelude]" } else { "" },
                if defs[*i].interrupt { " [Thread::interrupt() first]" } else { "" },
                defs[*i].src
            );
        }
        let mut hs: Vec<Vec<usize>> = vec![vec![], steps.clone()];
        for i in &steps {
            hs.push(vec![*i]);
        }
        hs.push(steps.iter().cloned().filter(|i| defs[*i].fails.is_none()).collect());
        let payloads: Vec<String> = hs.iter().map(|h| hist_payload(h, 60)).collect();
        let (outcomes, _) = run_cases(&payloads, 1, None);
        let get = |i: usize| -> Value {
            match &outcomes[i] {
                Some(CaseOutcome::Done(r)) => serde_json::from_str(r).unwrap_or(Value::Null),
                other => json!({"class": format!("{:?}", other)}),
            }
        };
        let fresh = get(0);
        let r = get(1);
        let reference = get(payloads.len() - 1);
        println!("fresh VM      : {}", fresh);
        println!("after history : {}", r);
        println!("successes only: {}", reference);
        let mut bad = Vec::new();
        if r["class"].as_str() != Some("Hist") {
            bad.push(format!("the history does not complete: {}", r));
        } else {
            for (k, s) in steps.iter().enumerate() {
                if k > 0 && r["outs"][k] != get(2 + k)["outs"][0] {
                    bad.push(format!("evaluation #{} (`{}`) differs from a fresh VM", k + 1, defs[*s].id));
                }
                if r["shapes"][k][0] != fresh["frames"] {
                    bad.push(format!("frame level after evaluation #{}: {}", k + 1, r["shapes"][k][0]));
                }
            }
            if r["canaries"] != fresh["canaries"] {
                bad.push("the canary suite differs from a fresh VM".to_string());
            }
            if r["frames"] != fresh["frames"] || r["stack_len"] != fresh["stack_len"] {
                bad.push(format!("frames/stack slots {} / {} (fresh {} / {})", r["frames"], r["stack_len"], fresh["frames"], fresh["stack_len"]));
            }
            if r["canaries"] == fresh["canaries"] && r["mem"] != reference["mem"] {
                bad.push(format!("allocated_memory after collect {} vs {}", r["mem"], reference["mem"]));
            }
        }
        for b in &bad {
            println!("violation: {}", b);
        }
        if !bad.is_empty() {
            report.violation(v["expected_key"].as_str().unwrap_or("replay").to_string(), bad.join("; "), v.clone());
        }
    }
    let _ = std::fs::remove_dir_all(&base);
    report
}
