//! C01 — evaluation matches the strict reference semantics.
//! Space: every well-typed GL-core program up to AST size N (type-directed, exactly once each)
//! plus the feature-product families of `templates`. Oracle: `refsem`.

use crate::lang::gen::{top_types, Cfg, Gen};
use crate::lang::refsem::{self, Fail, RefOutcome};
use crate::lang::templates;
use crate::lang::term::*;
use crate::par;
use crate::report::Report;
use crate::vmkit::{self, ErrKind, Outcome, Settings};
use serde_json::{json, Value};
use std::collections::{BTreeMap, HashSet};

#[derive(Default)]
pub struct Acc {
    pub evaluated: u64,
    pub skipped_ambiguous: u64,
    pub nontrivial: u64,
    pub rejected: Vec<(String, String)>,
    pub rejected_typecheck: u64,
    pub rejected_samples: Vec<(String, String)>,
    pub classes: BTreeMap<String, u64>,
    pub hashes: HashSet<u64>,
    pub mismatches: Vec<(String, String, String)>,
    pub per_size: BTreeMap<usize, u64>,
}

pub fn fnv(s: &str) -> u64 {
    let mut h: u64 = 0xcbf29ce484222325;
    for b in s.bytes() {
        h ^= b as u64;
        h = h.wrapping_mul(0x100000001b3);
    }
    h
}

/// Does the implementation's outcome agree with the reference outcome?
pub fn agrees(r: &RefOutcome, got: &Outcome) -> bool {
    match (r, got) {
        (RefOutcome::Value(w), Outcome::Ok(g, _)) => w == g,
        (RefOutcome::Fail(Fail::Error(m)), Outcome::Err(ErrKind::Panic, g)) => m == g,
        (RefOutcome::Fail(Fail::Arith), Outcome::Err(ErrKind::Overflow, _)) => true,
        (RefOutcome::Fail(Fail::MatchFail), Outcome::Err(ErrKind::Panic, g)) => g == "Unmatched pattern",
        (RefOutcome::Fail(Fail::Index), Outcome::Err(ErrKind::Panic, g)) => {
            g.starts_with("Index ") && g.ends_with("is out of range")
        }
        _ => false,
    }
}

pub struct Worker {
    pub vm: gluon::RootedThread,
    pub settings: Settings,
    pub uses: usize,
}

impl Worker {
    pub fn new(settings: Settings) -> Worker {
        Worker {
            vm: vmkit::make_vm_with_prim(settings),
            settings,
            uses: 0,
        }
    }
    pub fn run(&mut self, src: &str) -> Outcome {
        self.uses += 1;
        if self.uses % 4000 == 0 {
            self.vm = vmkit::make_vm_with_prim(self.settings);
        }
        vmkit::take_eff_log();
        vmkit::run(&self.vm, "main", src)
    }
}

fn check_one(w: &mut Worker, acc: &mut Acc, dialect: Dialect, t: &Term, track_hash: bool) {
    check_one_(w, acc, dialect, t, track_hash);
}

/// hostpanic key: message and file, not the line
pub fn hostpanic_key(msg: &str, loc: &str) -> String {
    let file = loc.rsplit_once(':').map(|x| x.0).unwrap_or(loc);
    let file = file.trim_start_matches("/repo/");
    // type-variable numbering and similar digits are not part of the call site's identity
    let msg: String = msg.chars().filter(|c| !c.is_ascii_digit()).collect();
    // symbols are printed with their address: `Pointer { addr: x.., metadata:  }:name@_`
    // (anywhere else in the message: `Pointer { .. }` -> PTR)
    let mut msg = msg;
    while let Some(i) = msg.find("Pointer { addr:") {
        if i > 0 && msg.as_bytes()[i - 1] == b'`' {
            break;
        }
        let end = msg[i..].find('}').map(|e| i + e + 1).unwrap_or(msg.len());
        msg = format!("{}PTR{}", &msg[..i], &msg[end..]);
    }
    let msg = if let Some(i) = msg.find("`Pointer {") {
        let rest = &msg[i + 1..];
        let end = rest.find('`').map(|e| i + 1 + e + 1).unwrap_or(msg.len());
        format!("{}`_`{}", &msg[..i], &msg[end..])
    } else {
        msg
    };
    format!("hostpanic:{}@{}", msg, file)
}

fn check_one_(w: &mut Worker, acc: &mut Acc, dialect: Dialect, t: &Term, track_hash: bool) {
    let r = refsem::run(t);
    if matches!(r.outcome, RefOutcome::Fail(Fail::Ambiguous) | RefOutcome::Fail(Fail::Uninit)) {
        acc.skipped_ambiguous += 1;
        return;
    }
    let src = program(dialect, t);
    let got = w.run(&src);
    acc.evaluated += 1;
    *acc.per_size.entry(t.size()).or_insert(0) += 1;
    *acc.classes.entry(got.class()).or_insert(0) += 1;
    if t.interesting() {
        if track_hash {
            if acc.hashes.insert(fnv(&src)) {
                acc.nontrivial += 1;
            }
        } else {
            acc.nontrivial += 1;
        }
    }
    if let Outcome::Err(k, m) = &got {
        if matches!(k, ErrKind::Typecheck) {
            // the checker refusing a program is C03's business; C01 is about accepted programs
            acc.rejected_typecheck += 1;
            if acc.rejected_samples.len() < 3 {
                acc.rejected_samples.push((src.clone(), m.clone()));
            }
            return;
        }
        if matches!(k, ErrKind::Parse | ErrKind::Macro) {
            if acc.rejected.len() < 20 {
                acc.rejected.push((src.clone(), format!("{:?}: {}", k, m)));
            }
            return;
        }
    }
    if std::env::var_os("VERIF_C01_SHOW_HOSTPANIC").is_some() {
        if let Outcome::Err(ErrKind::HostPanic, m) = &got {
            eprintln!("HOSTPANIC {} @ {} :: {}", m, vmkit::last_panic_loc(), src.replace('\n', "\\n"));
        }
    }
    let mut ok = agrees(&r.outcome, &got);
    if !ok && w.settings.optimize && matches!(r.outcome, RefOutcome::Fail(Fail::Arith)) {
        // permitted difference under optimisation: unused built-in arithmetic may be skipped
        ok = refsem::accept_set(t).iter().any(|r| agrees(&r.outcome, &got));
    }
    if !ok {
        // confirm on a fresh VM before reporting
        let fresh = vmkit::run(&vmkit::make_vm_with_prim(w.settings), "main", &src);
        let loc = vmkit::last_panic_loc();
        let mut fresh_ok = agrees(&r.outcome, &fresh);
        if !fresh_ok && w.settings.optimize && matches!(r.outcome, RefOutcome::Fail(Fail::Arith)) {
            fresh_ok = refsem::accept_set(t).iter().any(|r| agrees(&r.outcome, &fresh));
        }
        if let Outcome::Err(ErrKind::HostPanic, m) = &fresh {
            acc.mismatches.push((src, format!("{:?}", r.outcome), format!("KEY={} {:?}", hostpanic_key(m, &loc), fresh)));
        } else if !fresh_ok {
            acc.mismatches.push((src, format!("{:?}", r.outcome), format!("{:?}", fresh)));
        } else {
            // differs only on a used VM: history dependence (C16's business, but never silent)
            acc.mismatches.push((
                src,
                format!("{:?} (fresh VM agrees)", r.outcome),
                format!("{:?} on a long-lived VM", got),
            ));
        }
    }
}

pub fn merge(report: &mut Report, accs: Vec<Acc>, label: &str) -> (u64, u64) {
    let mut evaluated = 0;
    let mut nontrivial = 0;
    let mut skipped = 0;
    let mut classes: BTreeMap<String, u64> = BTreeMap::new();
    let mut per_size: BTreeMap<usize, u64> = BTreeMap::new();
    let mut all_hashes: HashSet<u64> = HashSet::new();
    let mut any_hash = false;
    let mut rejected_typecheck = 0;
    let mut rejected_samples = Vec::new();
    for a in accs {
        rejected_typecheck += a.rejected_typecheck;
        for (src, m) in a.rejected_samples {
            if rejected_samples.len() < 3 {
                rejected_samples.push(json!({"source": src, "error": m}));
            }
        }
        evaluated += a.evaluated;
        skipped += a.skipped_ambiguous;
        if a.hashes.is_empty() {
            nontrivial += a.nontrivial;
        } else {
            any_hash = true;
            all_hashes.extend(a.hashes);
        }
        for (k, v) in a.classes {
            *classes.entry(k).or_insert(0) += v;
        }
        for (k, v) in a.per_size {
            *per_size.entry(k).or_insert(0) += v;
        }
        for (src, why) in a.rejected {
            if report.machinery_errors.len() >= 6 {
                break;
            }
            report.machinery(format!(
                "[{}] generator produced a program the front end rejects ({}): {}",
                label,
                why,
                src.replace('\n', "\\n")
            ));
        }
        for (src, exp, got) in a.mismatches {
            {
                let e = exp.split('(').take(2).collect::<Vec<_>>().join("(");
                let g = got.split('(').take(2).collect::<Vec<_>>().join("(");
                let k = format!("mismatch_histogram.{} :: {} -> {}", label, e, g);
                if !src.is_empty() {
                    report.add(&k, 1);
                }
            }
            if src.is_empty() {
                report.add("violating_cases_total", 1);
                continue;
            }
            if std::env::var_os("VERIF_C01_DUMP").is_some() {
                eprintln!("MISMATCH [{}] {} -> {} :: {}", label, exp, got, src.replace('\n', "\\n"));
            }
            let key = match got.strip_prefix("KEY=") {
                Some(rest) => rest.split(' ').next().unwrap_or("").to_string(),
                None => format!("c01:{:016x}", fnv(&src)),
            };
            report.violation(
                key,
                format!("reference {} but implementation {}", exp, got),
                json!({"engine": "c01", "dialect": label, "source": src, "expected": exp, "observed": got}),
            );
        }
    }
    if any_hash {
        nontrivial += all_hashes.len() as u64;
    }
    report.set(&format!("{}.rejected_by_typechecker", label), rejected_typecheck);
    if rejected_typecheck > 0 {
        report.set(&format!("{}.rejected_by_typechecker_samples", label), json!(rejected_samples));
        if rejected_typecheck * 50 > evaluated {
            report.machinery(format!(
                "[{}] {} of {} generated programs rejected by the typechecker (> 2%): generator or printer defect?",
                label, rejected_typecheck, evaluated
            ));
        }
    }
    report.set(&format!("{}.evaluated", label), evaluated);
    report.set(&format!("{}.skipped_order_ambiguous", label), skipped);
    report.set(&format!("{}.outcome_classes", label), json!(classes));
    report.set(
        &format!("{}.per_size", label),
        json!(per_size.iter().map(|(k, v)| (k.to_string(), *v)).collect::<BTreeMap<_, _>>()),
    );
    (evaluated, nontrivial)
}

pub fn run(tier: &str) -> Report {
    let mut report = Report::new("C01", tier, "exploration");
    let max_size: usize = std::env::var("VERIF_C01_SIZE")
        .ok()
        .and_then(|s| s.parse().ok())
        .unwrap_or(if tier == "quick" { 6 } else { 7 });
    let deadline = par::deadline_for(tier, 45, 3000);
    let bare = Settings::bare();

    // (1) size-bounded space, bare dialect, unoptimised and optimised
    let mut completed_size = max_size;
    let mut total_eval = 0;
    let mut total_nontrivial = 0;
    let mut capped = false;
    for (mode, settings) in [("noopt", Settings { optimize: false, ..bare }), ("opt", bare)] {
        let mut completed = 0;
        for size in 1..=max_size {
            let track_hash = size <= 6 && mode == "noopt";
            let sweep = par::stream(
                Some(deadline),
                |emit| {
                    let mut g = Gen::new(Cfg::standard());
                    for ty in top_types() {
                        let mut go = true;
                        g.produce(&vec![], &ty, size, &mut |t| {
                            if go {
                                go = emit(t);
                            }
                        });
                        if !go {
                            break;
                        }
                    }
                },
                |_| Worker::new(settings),
                |w, acc: &mut Acc, t: Term| check_one(w, acc, Dialect::Bare, &t, track_hash),
            );
            let was_capped = sweep.capped;
            let (e, n) = merge(&mut report, sweep.results, &format!("{}.size{}", mode, size));
            total_eval += e;
            if mode == "noopt" {
                total_nontrivial += n;
            }
            if was_capped {
                capped = true;
                break;
            }
            completed = size;
        }
        completed_size = completed_size.min(completed);
    }
    report.set("size_bound_completed", completed_size as u64);
    report.set("size_bound_requested", max_size as u64);

    // (2) feature products, bare and prelude dialects
    let fams = templates::all(tier);
    let n_fam = fams.len();
    for (dialect, label, settings) in [
        (Dialect::Bare, "templates_bare_noopt", Settings { optimize: false, ..bare }),
        (Dialect::Bare, "templates_bare", bare),
        (
            Dialect::Prelude,
            "templates_prelude",
            Settings { implicit_prelude: true, ..bare },
        ),
    ] {
        let fams_ref = &fams;
        let sweep = par::sweep(
            n_fam,
            16,
            Some(deadline),
            |_| Worker::new(settings),
            |w, acc: &mut Acc, i| check_one(w, acc, dialect, &fams_ref[i].1, true),
        );
        if sweep.capped {
            capped = true;
        }
        let (e, n) = merge(&mut report, sweep.results, label);
        total_eval += e;
        total_nontrivial += n;
    }
    let mut fam_counts: BTreeMap<String, u64> = BTreeMap::new();
    for (name, _) in &fams {
        *fam_counts.entry(name.clone()).or_insert(0) += 1;
    }
    report.set("template_families", json!(fam_counts));

    report.set("evaluations", total_eval);
    report.set("distinct_nontrivial", total_nontrivial);
    report.set("exhaustive", !capped);
    report.set("wall_cap_hit", capped);
    report.set(
        "rule",
        "every well-typed GL-core term (Int/Bool/String/functions/records/tuples/variants V,O/arrays; \
         literals {0,1,2,i64::MAX}) of AST size <= size_bound_completed at 7 first-order result types, \
         enumerated type-directed exactly once each (canonical binder names), plus full cartesian feature \
         products (call shapes, record update, pattern matrices, rec groups, short-circuit, blocks, implicit \
         arguments) in two dialects (no prelude / implicit prelude with overloaded operators). Non-trivial = \
         contains a call, match, projection, update, rec, index, if or short-circuit node; distinct = distinct \
         source text (hash set; for size >= 7 distinctness follows from the enumerator emitting each term once)",
    );
    for (i, (name, t)) in fams.iter().enumerate() {
        if i % (n_fam / 4).max(1) == 0 {
            report.sample(json!({"family": name, "source": program(Dialect::Bare, t)}));
        }
    }
    {
        let mut g = Gen::new(Cfg::standard());
        for ty in [Ty::Int, Ty::V] {
            let v = g.gen(&vec![], &ty, 5);
            for i in [0, v.len() / 2, v.len() - 1] {
                report.sample(json!({"size": 5, "source": program(Dialect::Bare, &v[i])}));
            }
        }
    }
    report.assume("reference semantics fixes strictness, let/block sequencing, short-circuit, scrutinee-before-arm, record field order and arity-based application; programs whose outcome depends on the undocumented order of sibling sub-expressions are skipped (counted)");
    report.assume("harness profile: opt-level 2 with debug-assertions and overflow-checks on");
    report.assume("VMs are reused for 4000 programs; any disagreement is re-run on a fresh VM before it is reported");
    report
}

pub fn replay(v: &Value) -> Report {
    let mut report = Report::new("C01", "quick", "exploration");
    let src = v["source"].as_str().unwrap_or("").to_string();
    let prelude = v["dialect"].as_str().map(|d| d.contains("prelude")).unwrap_or(false);
    let s = Settings { implicit_prelude: prelude, ..Settings::bare() };
    let got = vmkit::run(&vmkit::make_vm_with_prim(s), "main", &src);
    println!("source:\n{}", src);
    println!("expected (reference): {}", v["expected"]);
    println!("observed now:         {:?}", got);
    let exp = v["expected"].as_str().unwrap_or("");
    let same_as_recorded = format!("{:?}", got) == v["observed"].as_str().unwrap_or("");
    if same_as_recorded {
        report.violation("replay", format!("reproduced: expected {} observed {:?}", exp, got), v.clone());
    }
    report.set("evaluations", 1u64);
    report.set("distinct_nontrivial", 1u64);
    report
}
