//! C02 — type soundness: programs the checker accepts never go wrong, under every setting.
//! Spaces (all enumerated completely): (i) every GL-core program up to a size x settings grid;
//! (ii) every first-order token mutant of each program of a base set — the ones the checker
//! accepts are executed; (iii) two-module programs x all 2^5 settings.

use crate::engines::c01::{fnv, hostpanic_key};
use crate::lang::gen::{top_types, Cfg, Gen};
use crate::lang::templates;
use crate::lang::term::*;
use crate::par;
use crate::report::Report;
use crate::vmkit::{self, ErrKind, Outcome, Settings};
use gluon::ThreadExt;
use serde_json::{json, Value};
use std::collections::{BTreeMap, HashSet};

#[derive(Default)]
pub struct Acc {
    executed: u64,
    accepted: u64,
    offered: u64,
    nontrivial: u64,
    classes: BTreeMap<String, u64>,
    hashes: HashSet<u64>,
    violations: Vec<(String, String, Value)>,
}

pub struct Vms {
    vms: Vec<(Settings, gluon::RootedThread, usize)>,
}

impl Vms {
    fn new(grid: &[Settings]) -> Vms {
        Vms { vms: grid.iter().map(|s| (*s, vmkit::make_vm_with_prim(*s), 0)).collect() }
    }
}

/// went wrong?  Some((key, description))
fn verdict(o: &Outcome, shape: &Option<String>, loc: &str) -> Option<(String, String)> {
    verdict_(o, shape, loc, "", false)
}

/// `src`/`io_module` refine the key of an internal error to the construct that triggers it, so
/// that a known finding never hides a different internal error with the same message
fn verdict_(o: &Outcome, shape: &Option<String>, loc: &str, src: &str, io_module: bool) -> Option<(String, String)> {
    match o {
        Outcome::Err(ErrKind::HostPanic, m) => Some((hostpanic_key(m, loc), format!("host panic: {} at {}", m, loc))),
        Outcome::Err(ErrKind::Forbidden, m) => {
            let head: String = m.split(|c: char| c.is_ascii_digit() || c == '`' || c == ':').next().unwrap_or("").trim().to_string();
            let family = src.lines().rev().find_map(|l| l.strip_prefix("// family:"));
            let feature = if let Some(f) = family {
                f.to_string()
            } else if io_module {
                "import-of-IO-typed-module-under-run_io".to_string()
            } else if src.contains("do ") || src.contains("seq ") {
                "do-expression-with-non-monadic-flat_map".to_string()
            } else {
                format!("{:016x}", fnv(src))
            };
            Some((format!("internal-error:{}:{}", head.trim_end_matches(|c: char| c == '{' || c == ' '), feature), format!("internal failure reported by the VM/compiler: {}", m)))
        }
        Outcome::Ok(..) => shape.as_ref().map(|s| {
            let family = src.lines().rev().find_map(|l| l.strip_prefix("// family:"));
            (
                match family {
                    Some(f) => format!("value-shape:{}", f),
                    None if src.is_empty() => "value-shape".to_string(),
                    None => format!("value-shape:{:016x}", fnv(src)),
                },
                s.clone(),
            )
        }),
        _ => None,
    }
}

fn exec(vms: &mut Vms, acc: &mut Acc, src: &str, what: &str, modules: &[(String, String)]) {
    for i in 0..vms.vms.len() {
        let s = vms.vms[i].0;
        vms.vms[i].2 += 1;
        if vms.vms[i].2 % 2000 == 0 || !modules.is_empty() {
            vms.vms[i].1 = vmkit::make_vm_with_prim(s);
        }
        let vm = &vms.vms[i].1;
        let mut load_failed = false;
        for (name, msrc) in modules {
            if vm.load_script(name, msrc).is_err() {
                load_failed = true;
            }
        }
        if load_failed {
            continue;
        }
        let (o, shape) = vmkit::run_checked(vm, "main", src);
        let loc = vmkit::last_panic_loc();
        if i == 0 {
            acc.offered += 1;
        }
        if matches!(o, Outcome::Err(ErrKind::Parse, _) | Outcome::Err(ErrKind::Typecheck, _) | Outcome::Err(ErrKind::Macro, _)) {
            continue;
        }
        if i == 0 {
            acc.accepted += 1;
        }
        acc.executed += 1;
        *acc.classes.entry(o.class()).or_insert(0) += 1;
        let io_module = s.run_io && modules.iter().any(|(_, m)| m.contains("std.io"));
        if let Some((key, desc)) = verdict_(&o, &shape, &loc, src, io_module) {
            // confirm on a fresh VM
            let fresh = vmkit::make_vm_with_prim(s);
            for (name, msrc) in modules {
                let _ = fresh.load_script(name, msrc);
            }
            let (o2, shape2) = vmkit::run_checked(&fresh, "main", src);
            let loc2 = vmkit::last_panic_loc();
            if let Some((key2, desc2)) = verdict_(&o2, &shape2, &loc2, src, io_module) {
                let _ = (key, desc);
                acc.violations.push((
                    key2,
                    format!("{} [{}]", desc2, what),
                    json!({"engine": "c02", "source": src, "settings": s.to_json(), "modules": modules, "observed": o2.to_json()}),
                ));
            }
        }
    }
}

/// token-level first-order mutants of a program body (the header lines are kept)
pub fn token_mutants(src: &str) -> Vec<String> {
    let header_end = src.rfind("type O = | N | S Int\n").map(|i| i + "type O = | N | S Int\n".len()).unwrap_or(0);
    let (head, body) = src.split_at(header_end);
    // split the body into tokens keeping whitespace runs as separate pieces
    let mut pieces: Vec<String> = Vec::new();
    let mut cur = String::new();
    let mut cur_ws: Option<bool> = None;
    let mut in_str = false;
    for c in body.chars() {
        if in_str {
            cur.push(c);
            if c == '"' {
                in_str = false;
                pieces.push(std::mem::take(&mut cur));
                cur_ws = None;
            }
            continue;
        }
        if c == '"' {
            if !cur.is_empty() {
                pieces.push(std::mem::take(&mut cur));
            }
            cur.push(c);
            in_str = true;
            cur_ws = Some(false);
            continue;
        }
        let ws = c.is_whitespace();
        let punct = "(){}[],\\".contains(c);
        if punct {
            if !cur.is_empty() {
                pieces.push(std::mem::take(&mut cur));
            }
            pieces.push(c.to_string());
            cur_ws = None;
            continue;
        }
        if cur_ws != Some(ws) && !cur.is_empty() {
            pieces.push(std::mem::take(&mut cur));
        }
        cur.push(c);
        cur_ws = Some(ws);
    }
    if !cur.is_empty() {
        pieces.push(cur);
    }
    let is_tok = |p: &String| !p.chars().all(|c| c.is_whitespace());
    let toks: Vec<usize> = (0..pieces.len()).filter(|i| is_tok(&pieces[*i])).collect();
    let replacements = ["v0", "v1", "0", "1", "\"s\"", "True", "N", "A", "()", "[]", "S", "B", "x", "f", "r", "#Int+", "#Int<", "_"];
    let mut out = Vec::new();
    let rebuild = |ps: &Vec<String>| -> String { format!("{}{}", head, ps.concat()) };
    for (k, &i) in toks.iter().enumerate() {
        let t = &pieces[i];
        let atom = t.chars().next().map(|c| c.is_alphanumeric() || c == '"' || c == '_' || c == '#').unwrap_or(false)
            && !["let", "in", "if", "then", "else", "match", "with", "rec", "do", "seq"].contains(&t.as_str());
        if atom {
            for r in replacements.iter() {
                if r != t {
                    let mut ps = pieces.clone();
                    ps[i] = r.to_string();
                    out.push(rebuild(&ps));
                }
            }
            // delete an atom (drops an argument) and duplicate it (adds an argument)
            let mut ps = pieces.clone();
            ps[i] = String::new();
            out.push(rebuild(&ps));
            let mut ps = pieces.clone();
            ps[i] = format!("{} {}", t, t);
            out.push(rebuild(&ps));
            // swap with the next atom
            if let Some(&j) = toks.get(k + 1) {
                let mut ps = pieces.clone();
                ps.swap(i, j);
                out.push(rebuild(&ps));
            }
        }
    }
    out
}

fn two_module_programs() -> Vec<(String, Vec<(String, String)>, String)> {
    let mut out = Vec::new();
    let module_bodies: Vec<(&str, &str, Vec<(&str, &str)>)> = vec![
        ("int", "1 #Int+ 2", vec![("let m = import! m in m #Int+ 1", "use"), ("let m = import! m in (m, m)", "pair")]),
        (
            "record_of_functions",
            "{ inc = \\x -> x #Int+ 1, k = 5, twice = \\f x -> f (f x) }",
            vec![
                ("let m = import! m in m.twice m.inc m.k", "apply"),
                ("let { inc, k } = import! m in inc k", "unpack"),
                ("let m = import! m in { m, z = m.inc 1 }", "rewrap"),
            ],
        ),
        (
            "variant_and_type",
            "type T = | L Int | R String\nlet f x = match x with\n        | L i -> i\n        | R _ -> 0\n{ T, f, v = L 3 }",
            vec![
                ("let { T, f, v } = import! m in f v", "use_type"),
                ("let { T, f } = import! m in f (R \"s\")", "construct"),
                ("let m = import! m in m.v", "return_variant"),
            ],
        ),
        (
            "rec_value",
            "type V = | A | C Int V\nrec let xs = C 1 xs\nin { V, xs }",
            vec![("let { V, xs } = import! m in match xs with\n        | C x _ -> x\n        | A -> 0", "head")],
        ),
        (
            "io_value",
            "let { wrap } = import! std.io.prim\nwrap 1",
            vec![
                ("let m = import! m in m", "return_io"),
                ("let { flat_map, wrap } = import! std.io.prim\nlet m = import! m in flat_map (\\x -> wrap (x #Int+ 1)) m", "bind_io"),
                ("let m = import! m in { a = m }", "store_io"),
            ],
        ),
        (
            "io_record",
            "let { wrap } = import! std.io.prim\n{ act = wrap 2, n = 3 }",
            vec![
                ("let m = import! m in m.n", "field"),
                ("let m = import! m in m.act", "io_field"),
            ],
        ),
        (
            "string_and_array",
            "{ s = \"héllo\", a = [1, 2, 3], e = [] }",
            vec![("let m = import! m in (m.s, m.a)", "both")],
        ),
    ];
    for (mname, body, mains) in module_bodies {
        for (main, label) in mains {
            out.push((
                format!("module:{}:{}", mname, label),
                vec![("m".to_string(), body.to_string())],
                main.to_string(),
            ));
        }
    }
    out
}

/// Full product: binder form x body kind x use, plus chains of matches whose patterns are variables
fn binding_form_programs() -> Vec<String> {
    let head = "let { Bool } = import! std.types\ntype V = | A | C Int V\n";
    let mut out = Vec::new();
    // bodies of a one argument function named f with parameter x
    let bodies: Vec<(&str, &str)> = vec![
        ("const", "1"),
        ("param", "x"),
        ("self", "if x #Int< 1 then 0 else f (x #Int- 1)"),
        ("self-tail-in-or", "if x #Int< 1 || x #Int== 100 then 0 else f (x #Int- 1)"),
        ("closure", "(\\y -> y #Int+ x) 1"),
        ("record", "{ a = x, b = [x] }.a"),
        ("match", "match C x A with\n    | C y _ -> y\n    | A -> 0"),
    ];
    let uses = vec!["f 3", "(f 3, f 4)._0", "let g = f\ng 3", "[f 1, f 2]", "{ h = f }.h 2"];
    for (bname, body) in &bodies {
        let recursive = body.contains("f (");
        let mut forms: Vec<String> = Vec::new();
        if !recursive {
            forms.push(format!("let f x =\n    {}", body));
            forms.push(format!("let f = \\x ->\n    {}", body));
            forms.push(format!("let f : Int -> _ = \\x ->\n    {}", body));
        }
        forms.push(format!("rec let f x =\n    {}", body));
        forms.push(format!("rec let f = \\x ->\n    {}", body));
        forms.push(format!("rec\nlet f x =\n    {}\nlet k y = f y", body));
        forms.push(format!("rec let r = {{ f = \\x ->\n    {} }}\nlet f = r.f", if recursive { body.replace("f (", "r.f (") } else { body.to_string() }));
        for form in &forms {
            for u in &uses {
                out.push(format!("{}{}\n{}\n// {}", head, form, u, bname));
            }
        }
    }
    // chains of matches on variables / wildcards / as-patterns
    let pats = ["x", "_", "x @ _", "x @ y"];
    for depth in 1..=3usize {
        let mut idx = vec![0usize; depth];
        loop {
            let mut src = format!("{}let w = 1\n", head);
            let mut scrut = "w".to_string();
            for (d, pi) in idx.iter().enumerate() {
                let pat = pats[*pi].replace('x', &format!("x{}", d)).replace('y', &format!("y{}", d));
                src.push_str(&format!("{}match {} with\n{}| {} ->\n", "    ".repeat(d), scrut, "    ".repeat(d), pat));
                if pat.starts_with('x') {
                    scrut = format!("x{}", d);
                }
            }
            src.push_str(&format!("{}{} #Int+ 1\n", "    ".repeat(depth), scrut));
            out.push(src);
            let mut k = 0;
            loop {
                if k == depth {
                    break;
                }
                idx[k] += 1;
                if idx[k] < pats.len() {
                    break;
                }
                idx[k] = 0;
                k += 1;
            }
            if k == depth {
                break;
            }
        }
    }
    // higher-rank function types: every pair (declared parameter type of the callee P, type Q of
    // the value the caller really passes) x result type x position in which `callee` is used at
    // `Q -> R`. Only Q at least as polymorphic as P is sound; whatever the checker accepts runs.
    {
        // (type text, a value of that type, how a function body uses a parameter h of that type, for result type Int / String)
        let ps: Vec<(&str, &str, &str, &str)> = vec![
            ("Int -> Int", "(\\x -> x #Int+ 1)", "h 41", "let _ = h 1\n    \"s\""),
            ("forall a . a -> a", "(\\x -> x)", "let k = h (\\y -> y #Int+ 1)\n    k (h 41)", "let _ = h 1\n    h \"str\""),
            ("forall a . a -> Int", "(\\_ -> 7)", "h \"s\" #Int+ h 1", "let _ = h h\n    \"s\""),
            ("String -> String", "(\\s -> s)", "let _ = h \"s\"\n    1", "h \"str\""),
            ("forall a . a -> a -> a", "(\\x _ -> x)", "h 1 2", "h \"a\" \"b\""),
        ];
        for (p_ty, _, use_int, use_str) in &ps {
            for (q_ty, q_val, _, _) in &ps {
                for (r_ty, body) in [("Int", use_int), ("String", use_str)] {
                    let callee = format!("let callee h : ({}) -> {} =\n    {}\n", p_ty, r_ty, body);
                    let positions = vec![
                        format!("let apply k : (({}) -> {}) -> {} = k {}\napply callee", q_ty, r_ty, r_ty, q_val),
                        format!("let c : ({}) -> {} = callee\nc {}", q_ty, r_ty, q_val),
                        format!("let r : {{ f : ({}) -> {} }} = {{ f = callee }}\nr.f {}", q_ty, r_ty, q_val),
                        format!("let other k : ({}) -> {} = k {}\n(if True then callee else other) {}", q_ty, r_ty, if *r_ty == *"Int" { "1".to_string() } else { "\"o\"".to_string() }, q_val)
                            .replace("= k 1", "=\n    let _ = k\n    1")
                            .replace("= k \"o\"", "=\n    let _ = k\n    \"o\""),
                        format!("let apply2 k v : (({}) -> {}) -> ({}) -> {} = k v\napply2 callee {}", q_ty, r_ty, q_ty, r_ty, q_val),
                    ];
                    for (pi, pos) in positions.into_iter().enumerate() {
                        out.push(format!("{}{}{}\n// family:rank2:callee-takes({}):caller-passes({}):result-{}:position-{}\n", head, callee, pos, p_ty, q_ty, r_ty, pi));
                    }
                }
            }
        }
    }
    // annotated records: the literal's field order differs from the annotation's
    for lit in ["{ y = \"a\", x = 1 }", "{ x = 1, y = \"a\" }"] {
        let fam = "// family:annotated-record-literal-with-fields-in-another-order\n";
        out.push(format!("{}let r : {{ x : Int, y : String }} = {}\nr.x\n{}", head, lit, fam));
        out.push(format!("{}let r : {{ x : Int, y : String }} = {}\nr.y\n{}", head, lit, fam));
        out.push(format!("{}let f r : {{ x : Int, y : String }} -> Int = r.x\nf {}\n{}", head, lit, fam));
        out.push(format!("{}let b = {{ x = 2, y = \"b\" }}\nlet r : {{ x : Int, y : String }} = {{ y = \"a\", .. b }}\nr.x\n{}", head, fam));
        out.push(format!("{}let g r : {{ y : String, x : Int }} -> String = r.y\ng {}\n{}", head, lit, fam));
    }
    // recursive value groups whose members are inspected while the group is being built
    for probe in ["if b.flag then { x = 1 } else { x = 2 }", "{ x = (if b.flag then 1 else 2) }", "{ x = b.n }", "match b.v with\n    | A -> { x = 1 }\n    | C _ _ -> { x = 2 }"] {
        out.push(format!("{}rec\nlet a =\n    {}\nlet b = {{ flag = True, n = 3, v = A, back = \\_ -> a.x }}\na.x\n// family:recursive-value-group-member-inspected-while-the-group-is-built\n", head, probe));
    }
    // record patterns whose alternatives name different fields
    for (a, b) in [("{ x = 2 }", "{ y = 2 }"), ("{ x = 1 }", "{ x = 1, y = 3 }"), ("{ y = 2 }", "{ x }"), ("{ x, y = 9 }", "{ y }")] {
        out.push(format!("{}match {{ x = 1, y = 2 }} with\n| {} -> 0\n| {} -> 1\n| _ -> 2\n", head, a, b));
    }
    out
}

fn merge(report: &mut Report, accs: Vec<Acc>, label: &str) -> (u64, u64) {
    let mut executed = 0;
    let mut accepted = 0;
    let mut offered = 0;
    let mut classes: BTreeMap<String, u64> = BTreeMap::new();
    let mut hashes: HashSet<u64> = HashSet::new();
    for a in accs {
        executed += a.executed;
        accepted += a.accepted;
        offered += a.offered;
        hashes.extend(a.hashes);
        for (k, v) in a.classes {
            *classes.entry(k).or_insert(0) += v;
        }
        for (key, what, replay) in a.violations {
            report.violation(key, what, replay);
        }
    }
    report.set(&format!("{}.offered_to_checker", label), offered);
    report.set(&format!("{}.accepted_by_checker", label), accepted);
    report.set(&format!("{}.executions", label), executed);
    report.set(&format!("{}.outcome_classes", label), json!(classes));
    (executed, hashes.len() as u64)
}

fn corner_settings() -> Vec<Settings> {
    // bit0 implicit_prelude, bit1 optimize, bit2 debug info, bit3 run_io, bit4 full_metadata
    vec![Settings::from_bits(0b00000), Settings::from_bits(0b00110), Settings::from_bits(0b11111), Settings::from_bits(0b01001)]
}

fn all_settings() -> Vec<Settings> {
    (0..32).map(Settings::from_bits).collect()
}

pub fn run(tier: &str) -> Report {
    let mut report = Report::new("C02", tier, "exploration");
    let quick = tier == "quick";
    let deadline = par::deadline_for(tier, 45, 3000);
    let size: usize = std::env::var("VERIF_C02_SIZE").ok().and_then(|s| s.parse().ok()).unwrap_or(if quick { 5 } else { 6 });
    let grid = if quick { corner_settings() } else { all_settings() };
    let mut total = 0;
    let mut distinct = 0;
    let mut capped = false;

    // (i) enumerated programs x settings
    let grid_ref = &grid;
    let sweep = par::stream(
        Some(deadline),
        |emit| {
            let mut g = Gen::new(Cfg::standard());
            'outer: for n in 1..=size {
                for ty in top_types() {
                    let mut go = true;
                    g.produce(&vec![], &ty, n, &mut |t| {
                        if go {
                            go = emit(t);
                        }
                    });
                    if !go {
                        break 'outer;
                    }
                }
            }
        },
        |_| Vms::new(grid_ref),
        |vms, acc: &mut Acc, t: Term| {
            let src = program(Dialect::Bare, &t);
            if t.interesting() {
                acc.hashes.insert(fnv(&src));
            }
            exec(vms, acc, &src, "generated", &[]);
        },
    );
    capped |= sweep.capped;
    let (e, d) = merge(&mut report, sweep.results, "generated");
    total += e;
    distinct += d;

    // (ii) token mutants of a base set: all programs of size <= 4 plus every 37th feature product
    let mut base: Vec<String> = Vec::new();
    {
        let mut g = Gen::new(Cfg::standard());
        for n in 1..=(if quick { 4 } else { 5 }) {
            for ty in top_types() {
                for t in g.gen(&vec![], &ty, n).iter() {
                    if t.interesting() {
                        base.push(program(Dialect::Bare, t));
                    }
                }
            }
        }
        for (i, (_, t)) in templates::all("quick").iter().enumerate() {
            if i % (if quick { 97 } else { 13 }) == 0 {
                base.push(program(Dialect::Bare, t));
            }
        }
    }
    let base_ref = &base;
    let mut_grid = vec![Settings::from_bits(0b00110), Settings::from_bits(0b00100)];
    let mut_grid_ref = &mut_grid;
    let sweep = par::sweep(
        base.len(),
        4,
        Some(deadline),
        |_| Vms::new(mut_grid_ref),
        |vms, acc: &mut Acc, i| {
            for m in token_mutants(&base_ref[i]) {
                acc.hashes.insert(fnv(&m));
                exec(vms, acc, &m, "token-mutant", &[]);
            }
        },
    );
    capped |= sweep.capped;
    let (e, d) = merge(&mut report, sweep.results, "mutants");
    report.set("mutants.base_programs", base.len() as u64);
    total += e;
    distinct += d;

    // (iii) two-module programs x all 32 settings
    let mods = two_module_programs();
    let mods_ref = &mods;
    let all = all_settings();
    let all_ref = &all;
    let sweep = par::sweep(
        mods.len(),
        1,
        Some(deadline),
        |_| Vms::new(all_ref),
        |vms, acc: &mut Acc, i| {
            let (label, modules, main) = &mods_ref[i];
            acc.hashes.insert(fnv(main));
            exec(vms, acc, main, label, modules);
        },
    );
    capped |= sweep.capped;
    let (e, d) = merge(&mut report, sweep.results, "modules");
    total += e;
    distinct += d;

    // (iv) products of binding forms: how a function / recursive value is bound x what its body
    // refers to x how it is used; nested matches that only rename the scrutinee
    let forms = binding_form_programs();
    let forms_ref = &forms;
    let sweep = par::sweep(
        forms.len(),
        8,
        Some(deadline),
        |_| Vms::new(grid_ref),
        |vms, acc: &mut Acc, i| {
            acc.hashes.insert(fnv(&forms_ref[i]));
            exec(vms, acc, &forms_ref[i], "binding-form", &[]);
        },
    );
    capped |= sweep.capped;
    let (e, d) = merge(&mut report, sweep.results, "binding_forms");
    report.set("binding_forms.programs", forms.len() as u64);
    total += e;
    distinct += d;

    report.set("evaluations", total);
    report.set("distinct_nontrivial", distinct);
    report.set("exhaustive", !capped);
    report.set("wall_cap_hit", capped);
    report.set("settings_grid", json!(grid.iter().map(|s| s.to_json()).collect::<Vec<_>>()));
    report.set(
        "rule",
        "(i) every well-typed GL-core program up to the size bound x the settings grid (4 corner settings quick, all 32 thorough); \
         (ii) EVERY first-order token mutant (replace an atom by each of 18 atoms, delete it, duplicate it, swap with the next atom) \
         of every interesting program of size <= 4 and of a slice of the feature products, offered to the checker, the accepted ones executed; \
         (iii) 17 two-module programs (pure, record of functions, exported type, recursive value, IO-typed values) x all 32 settings. \
         Oracle: no host panic, no internal-error message, result value has the shape of the reported type. distinct = distinct source texts",
    );
    report.sample(json!({"mutant_of": base[base.len() / 2], "mutants": token_mutants(&base[base.len() / 2]).into_iter().take(3).collect::<Vec<_>>()}));
    report.sample(json!({"modules": mods[0].1, "main": mods[0].2}));
    report.assume("internal-failure messages are recognised by the list vmkit::FORBIDDEN_MESSAGES; other runtime errors (error, overflow, unmatched pattern, out of range) are legitimate");
    report.assume("shape check accepts anything under type variables, opaque and abstract types");
    report
}

pub fn replay(v: &Value) -> Report {
    let mut report = Report::new("C02", "quick", "exploration");
    let s = Settings::from_json(&v["settings"]);
    let vm = vmkit::make_vm_with_prim(s);
    if let Some(ms) = v["modules"].as_array() {
        for m in ms {
            let _ = vm.load_script(m[0].as_str().unwrap_or("m"), m[1].as_str().unwrap_or(""));
        }
    }
    let src = v["source"].as_str().unwrap_or("");
    let (o, shape) = vmkit::run_checked(&vm, "main", src);
    let loc = vmkit::last_panic_loc();
    println!("settings: {}\nsource:\n{}\nobserved: {:?} shape: {:?}", v["settings"], src, o, shape);
    if let Some((k, d)) = verdict(&o, &shape, &loc) {
        report.violation(k, d, v.clone());
    }
    report
}
