pub mod c01;
pub mod c02;
pub mod c04;
pub mod c12;
pub mod c16;
pub mod c17;
pub mod c18;
pub mod c19;
