pub mod c01;
pub mod c02;
pub mod c04;
